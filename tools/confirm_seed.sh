#!/bin/bash
# usage: tools/confirm_seed.sh <Cxx><a|b> [checks...]
# Re-confirms a seeded change kept under /verif/seeded/<id>/ in a fresh scratch worktree of /repo HEAD (outside /repo and
# /verif): the demonstration passes on the clean tree, the change compiles and the repository's own suite passes with it, the
# demonstration fails with it; then runs the registered quick checks against the worktree (VERIF_REPO, /repo is never
# touched) and rewrites seeded/<id>/meta.json with what was run and which checks caught it.  The worktree is removed afterwards.
sid=$1; shift
checks=${@:-C01 C02 C03 C04 C05 C06 C07 C08 C09 C10 C11 C12 C13 C14 C15 C16 C17 C18 C19 C20}
d=/verif/seeded/$sid
dest=$(python3 -c "import json;print(json.load(open('$d/meta.json'))['demo_destination'])")
export GOFLAGS=-mod=mod GOPROXY=off
wt=$(mktemp -d /tmp/wt-seed.XXXXXX); rmdir $wt
git -C /repo worktree add -q --detach $wt HEAD || exit 2
out=/verif/.work/seed-$sid; rm -rf $out; mkdir -p $out
trap 'git -C /repo worktree remove --force $wt 2>/dev/null; rm -rf $out' EXIT
pkgdir=$(dirname $dest); run=$(grep -o 'func Test[A-Za-z0-9_]*' $d/demo_test.go | sed 's/func //' | tr '\n' '|' | sed 's/|$//')
cp $d/demo_test.go $wt/$dest
clean=$(cd $wt && go test -vet=off -count=1 -run "$run" ./$pkgdir/ 2>&1 | tail -1 | tr -d '\0')
rm $wt/$dest
(cd $wt && git apply $d/patch.diff) || { echo "$sid: patch does not apply"; exit 1; }
suite=$(cd $wt && go test -vet=off -count=1 ./... 2>&1 | grep -v "^ok" | head -3 | tr -d '\0')
cp $d/demo_test.go $wt/$dest
mut=$(cd $wt && go test -vet=off -count=1 -run "$run" ./$pkgdir/ 2>&1 | tail -1 | tr -d '\0')
rm $wt/$dest
res=""; classes=""
for c in $checks; do
  (cd ${VERIF_HOME:-/verif} && VERIF_REPO=$wt VERIF_OUT=$out ./run.sh $c quick > $out/last.txt 2>&1); rc=$?
  o=$(tr -d '\0' < $out/last.txt)
  res="$res $c:$rc"
  if [ $rc -ne 0 ]; then cls=$(echo "$o" | grep -m2 'class=' | sed 's/ *class=//' | tr '\n' ';'); classes="$classes|$c=$cls"; fi
done
echo "$sid demo_clean=[$clean] suite=[${suite:-ok}] demo_mutant=[$mut] ::$res"
python3 - "$sid" "$clean" "${suite:-ok}" "$mut" "$res" "$run" "$classes" <<'PY'
import json,sys
sid,clean,suite,mut,res,run,classes=sys.argv[1:8]
p='/verif/seeded/%s/meta.json'%sid; m=json.load(open(p))
r={k:int(v) for k,v in (x.split(':') for x in res.split())}
m["confirmed"]={"demo_on_clean_tree":clean,"repo_suite_with_change":suite,"demo_with_change":mut,
  "how":"fresh scratch worktree of /repo HEAD under /tmp; demo copied to demo_destination and run with demo_run; patch.diff applied with git apply; `go test -vet=off -count=1 ./...`; demo run again; then each registered quick check with VERIF_REPO=<worktree>"}
m["quick_checks_exit_codes"].update(r) if "quick_checks_exit_codes" in m else m.update({"quick_checks_exit_codes":r})
rr=m["quick_checks_exit_codes"]
m["caught_by"]=sorted(k for k,v in rr.items() if v==1); m["inconclusive"]=sorted(k for k,v in rr.items() if v not in (0,1))
vc=m.get("violation_classes",{})
for part in classes.split('|'):
    if '=' in part:
        k,v=part.split('=',1); vc[k]=v
m["violation_classes"]=vc
json.dump(m,open(p,'w'),indent=1)
PY
