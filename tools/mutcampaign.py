#!/usr/bin/env python3
"""Mechanical mutation campaign (complements the hand-made and sub-agent-made regressions of DESIGN §5).

usage: tools/mutcampaign.py <first-index> <count> [--seed S] [--workers W] [--out DIR]

Mutant i is a pure function of (seed, i): an operator and a site in /repo's non-test Go sources.  Each mutant is
built in a scratch worktree of /repo HEAD under /tmp (never in /repo), must compile, must pass the repository's
own suite (otherwise it is recorded as killed-by-suite and dropped), and is then judged by the registered quick
checks (VERIF_REPO=<worktree>), fastest first, stopping at the first check that reports a violation.
Results: one JSON line per mutant in <out>/results.jsonl; the diff of every mutant that no check caught in
<out>/survivors/<i>.diff for manual triage (equivalent mutants are expected among them).
"""
import sys, os, re, json, random, subprocess, glob, hashlib, shutil, argparse
from concurrent.futures import ThreadPoolExecutor

REPO = '/repo'
ENV = dict(os.environ, GOFLAGS='-mod=mod', GOPROXY='off')
ORDER = 'C02 C01 C03 C13 C12 C08 C07 C15 C17 C18 C09 C10 C14 C04 C05 C06 C11 C19 C16 C20'.split()

ENC_RE = re.compile(r'\tif err := codec\.(Write\w+?)(\[[^\]]*\])?\(buf, (p\.(\w+)|[\w.]+\(p\.(\w+)\))((?:, [^;\n]*)?)\); err != nil \{\n\t\t[^\n]*\n\t\}\n')
DEC_RE = re.compile(r'\tif val, err := codec\.(Read\w+?)(\[[^\]]*\])?\(buf((?:, [^;\n]*)?)\); err != nil \{\n\t\treturn err\n\t\} else \{\n\t\tp\.(\w+) = (?:[\w.]+\()?val\)?\n\t\}\n')

def sources():
    fs = sorted(glob.glob(REPO + '/*/messages/*.go') + glob.glob(REPO + '/codec/*.go'))
    return [f[len(REPO) + 1:] for f in fs if not f.endswith('_test.go')]

def func_span(src, name):
    m = re.search(r'^func \(p \*\w+\) ' + name + r'\(buf \*bytes\.Buffer\) error \{\n', src, re.M)
    if not m:
        return None
    e = src.find('\n}\n', m.end())
    return (m.end(), e + 1)

def field_blocks(src):
    es, ds = func_span(src, 'Encode'), func_span(src, 'Decode')
    if not es or not ds:
        return {}, {}
    enc = {}
    for m in ENC_RE.finditer(src, es[0], es[1]):
        enc[m.group(4) or m.group(5)] = m
    dec = {}
    for m in DEC_RE.finditer(src, ds[0], ds[1]):
        dec[m.group(4)] = m
    return enc, dec

def replace_span(src, spans):
    """spans: list of (start, end, newtext), non-overlapping"""
    for s, e, t in sorted(spans, reverse=True):
        src = src[:s] + t + src[e:]
    return src

# ---------------------------------------------------------------- field-level operators on message files
def op_field(rng, path, src, sides):
    enc, dec = field_blocks(src)
    common = [f for f in enc if f in dec]
    if not common:
        return None
    f = rng.choice(common)
    me, md = enc[f], dec[f]
    et, dt = me.group(0), md.group(0)
    kind = rng.choice(['width', 'endian', 'swap', 'prefix', 'pad', 'drop', 'numtype'])
    desc = None
    if kind == 'width':
        mm = re.search(r', (\d+)([,)])', et.split('\n')[0])
        if not mm:
            return None
        n = int(mm.group(1))
        n2 = n + rng.choice([-1, 1, 1, 2]) if n > 1 else n + 1
        et2 = et.replace(', %d%s' % (n, mm.group(2)), ', %d%s' % (n2, mm.group(2)), 1)
        dt2 = re.sub(r'\(buf, %d([,)])' % n, r'(buf, %d\1' % n2, dt, 1)
        desc = 'fixed width of %s %d -> %d' % (f, n, n2)
    elif kind == 'endian':
        w, r = me.group(1), md.group(1)
        if w.endswith('LE'):
            et2, dt2 = et.replace('codec.' + w, 'codec.' + w[:-2], 1), dt.replace('codec.' + r, 'codec.' + r[:-2] if r.endswith('LE') else 'codec.' + r, 1)
        else:
            et2, dt2 = et.replace('codec.' + w + '(', 'codec.' + w + 'LE(', 1).replace('codec.' + w + '[', 'codec.' + w + 'LE[', 1), dt.replace('codec.' + r + '(', 'codec.' + r + 'LE(', 1).replace('codec.' + r + '[', 'codec.' + r + 'LE[', 1)
        desc = 'byte order of %s flipped' % f
    elif kind == 'swap':
        i = common.index(f)
        if i + 1 >= len(common):
            return None
        g = common[i + 1]
        spans = []
        if 'E' in sides:
            spans += [(enc[f].start(), enc[f].end(), enc[g].group(0)), (enc[g].start(), enc[g].end(), enc[f].group(0))]
        if 'D' in sides:
            spans += [(dec[f].start(), dec[f].end(), dec[g].group(0)), (dec[g].start(), dec[g].end(), dec[f].group(0))]
        return replace_span(src, spans), 'wire order of %s and %s swapped (%s)' % (f, g, sides)
    elif kind == 'prefix':
        if not me.group(2) or not re.search(r'uint(8|16|32)', me.group(2)):
            return None
        old = re.search(r'uint(8|16|32)', me.group(2)).group(0)
        new = rng.choice([x for x in ['uint8', 'uint16', 'uint32'] if x != old])
        et2 = et.replace('[' + old, '[' + new, 1) if '[' + old in et else et.replace(old, new, 1)
        dt2 = dt.replace(old, new, 1)
        desc = 'prefix type of %s %s -> %s' % (f, old, new)
    elif kind == 'pad':
        mm = re.search(r", '(.)', (true|false)\)", et)
        if mm:
            if rng.random() < 0.5:
                newc = rng.choice([c for c in " 0" if c != mm.group(1)] or ['0'])
                et2 = et.replace("'%s', %s)" % (mm.group(1), mm.group(2)), "'%s', %s)" % (newc, mm.group(2)), 1)
                dt2 = dt.replace("'%s', %s)" % (mm.group(1), mm.group(2)), "'%s', %s)" % (newc, mm.group(2)), 1)
                desc = 'pad byte of %s %r -> %r' % (f, mm.group(1), newc)
            else:
                ns = 'false' if mm.group(2) == 'true' else 'true'
                et2 = et.replace("'%s', %s)" % (mm.group(1), mm.group(2)), "'%s', %s)" % (mm.group(1), ns), 1)
                dt2 = dt.replace("'%s', %s)" % (mm.group(1), mm.group(2)), "'%s', %s)" % (mm.group(1), ns), 1)
                desc = 'pad side of %s flipped' % f
        else:
            mm = re.search(r'codec\.WriteFixedString\(buf, p\.\w+, (\d+)\)', et)
            md2 = re.search(r'codec\.ReadFixedString\(buf, (\d+)\)', dt)
            if not mm or not md2:
                return None
            c, side = rng.choice([("'0'", 'true'), ("' '", 'true'), ("'0'", 'false'), ('0', 'false')])
            et2 = et.replace(mm.group(0), 'codec.WriteFixedStringWithPadding(buf, p.%s, %s, %s, %s)' % (f, mm.group(1), c, side), 1)
            dt2 = dt.replace(md2.group(0), 'codec.ReadFixedStringTrimPadding(buf, %s, %s, %s)' % (md2.group(1), c, side), 1)
            desc = 'padding of %s -> (%s, left=%s)' % (f, c, side)
    elif kind == 'drop':
        et2, dt2 = '', ''
        desc = 'field %s no longer on the wire' % f
    elif kind == 'numtype':
        mm = re.search(r'ReadBasicType(LE)?\[(u?)int(16|32|64)\]', dt)
        if not mm or me.group(3) != 'p.' + f:
            return None
        bits = mm.group(3)
        nb = rng.choice([b for b in ['16', '32', '64'] if b != bits])
        nt = mm.group(2) + 'int' + nb
        ot = mm.group(2) + 'int' + bits
        et2 = et.replace('(buf, p.%s)' % f, '(buf, %s(p.%s))' % (nt, f), 1)
        dt2 = dt.replace('[%s]' % ot, '[%s]' % nt, 1).replace('p.%s = val' % f, 'p.%s = %s(val)' % (f, ot), 1)
        desc = 'wire type of %s %s -> %s' % (f, ot, nt)
    if desc is None:
        return None
    spans = []
    if 'E' in sides:
        spans.append((me.start(), me.end(), et2))
    if 'D' in sides:
        spans.append((md.start(), md.end(), dt2))
    return replace_span(src, spans), desc + ' (%s)' % sides

# ---------------------------------------------------------------- registration operators
REG_RE = re.compile(r'\t(Registry\w+Factory)\(([^,]+), func\(\) codec\.BinaryCodec \{ return &(\w+)\{\} \}\)\n')

def op_registry(rng, path, src):
    regs = list(REG_RE.finditer(src))
    if len(regs) < 1:
        return None
    kind = rng.choice(['swaptypes', 'renumber', 'dropreg', 'dupkey'])
    a = rng.choice(regs)
    if kind == 'swaptypes' and len(regs) > 1:
        b = rng.choice([r for r in regs if r is not a and r.group(1) == a.group(1)] or [a])
        if b is a or a.group(3) == b.group(3):
            return None
        ta = a.group(0).replace('&%s{}' % a.group(3), '&%s{}' % b.group(3))
        tb = b.group(0).replace('&%s{}' % b.group(3), '&%s{}' % a.group(3))
        return replace_span(src, [(a.start(), a.end(), ta), (b.start(), b.end(), tb)]), 'types registered for keys %s and %s swapped' % (a.group(2), b.group(2))
    if kind == 'renumber':
        k = a.group(2)
        if k.startswith('"'):
            k2 = '"' + k[1:-1][::-1] + '"' if k[1:-1][::-1] != k[1:-1] else '"' + k[1:-1] + '9"'
        else:
            k2 = str(int(k) + rng.choice([1, 1000, 256]))
        return replace_span(src, [(a.start(), a.end(), a.group(0).replace('(' + k + ',', '(' + k2 + ',', 1))]), 'key %s registered as %s' % (k, k2)
    if kind == 'dropreg':
        return replace_span(src, [(a.start(), a.end(), '')]), 'registration of key %s removed' % a.group(2)
    if kind == 'dupkey' and len(regs) > 1:
        b = rng.choice([r for r in regs if r is not a and r.group(1) == a.group(1)] or [a])
        if b is a:
            return None
        return replace_span(src, [(a.start(), a.end(), a.group(0) + b.group(0).replace('(' + b.group(2) + ',', '(' + a.group(2) + ',', 1))]), 'key %s registered a second time with the type of key %s' % (a.group(2), b.group(2))
    return None

# ---------------------------------------------------------------- token operators (library, frames, hand-written codecs)
TOKEN_OPS = [
    (r' < ', ' <= '), (r' <= ', ' < '), (r' > ', ' >= '), (r' >= ', ' > '), (r' == ', ' != '), (r' != ', ' == '),
    (r' \+ ', ' - '), (r' - ', ' + '), (r' && ', ' || '), (r' \|\| ', ' && '),
    (r'\btrue\b', 'false'), (r'\bfalse\b', 'true'),
    (r'binary\.BigEndian', 'binary.LittleEndian'), (r'binary\.LittleEndian', 'binary.BigEndian'),
    (r'\breturn err\b', 'return nil'), (r'\b0xFF\b', '0x7F'), (r'\b0xFFFF\b', '0xFFFE'), (r'\b0xA001\b', '0xA002'),
    (r'\b1\b', '2'), (r'\b0\b', '1'), (r'\b4\b', '8'), (r'\b8\b', '4'), (r'\b2\b', '1'),
    (r'\bbodyStart\b', 'bodyPos'), (r'\bbodyEnd\b', 'bodyStart'), (r'\bframeStart\b', '0'), (r'\[frameStart:\]', '[:]'),
    (r'\.Len\(\)', '.Cap()'), (r'uint32\(', 'uint16('), (r'int32\(', 'int16('), (r'& 0xFF', '& 0x7F'), (r'>> 1', '>> 2'), (r'\^ ', '| '),
    (r'LE\(', '('), (r'defer ', ''), (r'\.RLock\(\)', '.Lock()'), (r'\.Lock\(\)', '.RLock()'), (r'\.RUnlock\(\)', '.Unlock()'),
]

def op_token(rng, path, src):
    lines = src.split('\n')
    # only inside function bodies
    body = []
    infn = False
    for i, l in enumerate(lines):
        if l.startswith('func '):
            infn = True
            continue
        if l == '}':
            infn = False
        if infn and l.strip() and not l.strip().startswith('//') and 'fmt.Errorf' not in l and 'fmt.Sprintf' not in l:
            body.append(i)
    for _ in range(60):
        if not body:
            return None
        i = rng.choice(body)
        if rng.random() < 0.12 and re.match(r'^\t+[\w.\[\]:]+( :?= |\.\w+\().*[^{]$', lines[i]) and 'err' not in lines[i] and ':=' not in lines[i]:
            new = lines[:i] + lines[i + 1:]
            return '\n'.join(new), 'statement deleted at %s:%d: %s' % (path, i + 1, lines[i].strip()[:80])
        ops = [(p, r) for p, r in TOKEN_OPS if re.search(p, lines[i])]
        if not ops:
            continue
        p, r = rng.choice(ops)
        ms = list(re.finditer(p, lines[i]))
        m = rng.choice(ms)
        nl = lines[i][:m.start()] + r + lines[i][m.end():]
        new = lines[:i] + [nl] + lines[i + 1:]
        return '\n'.join(new), 'token %r -> %r at %s:%d: %s' % (m.group(0), r, path, i + 1, lines[i].strip()[:80])
    return None

def make_mutant(seed, idx):
    rng = random.Random('%s/%d' % (seed, idx))
    files = sources()
    lib = [f for f in files if f.startswith('codec/')]
    frames = [f for f in files if re.search(r'(_binary|root_packet|risk_control_re\w+|nested_packet|string_packet|basic_packet)\.go$', f)]
    msgs = [f for f in files if f not in lib]
    for _ in range(200):
        fam = rng.choice(os.environ.get('MUT_FAMILIES', 'field-sym field-sym field-enc field-dec registry token-lib token-lib token-frame token-frame token-msg').split())
        if fam.startswith('field'):
            path = rng.choice(msgs)
            src = open(os.path.join(REPO, path)).read()
            r = op_field(rng, path, src, {'field-sym': 'ED', 'field-enc': 'E', 'field-dec': 'D'}[fam])
        elif fam == 'registry':
            path = rng.choice(msgs)
            src = open(os.path.join(REPO, path)).read()
            r = op_registry(rng, path, src)
        else:
            path = rng.choice({'token-lib': lib, 'token-frame': frames, 'token-msg': msgs}[fam])
            src = open(os.path.join(REPO, path)).read()
            r = op_token(rng, path, src)
        if r and r[0] != src:
            return fam, path, r[0], r[1]
    return None

def sh(cmd, cwd=None, timeout=900, env=ENV):
    try:
        p = subprocess.run(cmd, cwd=cwd, env=env, shell=isinstance(cmd, str), capture_output=True, text=True, timeout=timeout, errors='replace')
        return p.returncode, p.stdout + p.stderr
    except subprocess.TimeoutExpired as e:
        return 124, 'timeout'

def judge(worker, seed, idx, outdir):
    wt = '/tmp/wt-camp-%d' % worker
    vout = '/verif/.work/camp-%d' % worker
    if not os.path.isdir(wt):
        sh(['git', '-C', REPO, 'worktree', 'add', '-q', '--detach', wt, 'HEAD'])
    sh(['git', 'checkout', '-q', '--', '.'], cwd=wt)
    m = make_mutant(seed, idx)
    rec = {'index': idx, 'seed': seed}
    if not m:
        rec['status'] = 'no-site'
        return rec
    fam, path, new, desc = m
    rec.update(family=fam, file=path, mutation=desc)
    open(os.path.join(wt, path), 'w').write(new)
    rc, out = sh('go build ./... && go vet ./' + os.path.dirname(path) + '/', cwd=wt)
    if rc != 0:
        rec['status'] = 'does-not-compile-or-vet'
        return rec
    rc, out = sh('go test -count=1 ./...', cwd=wt)
    if rc != 0:
        rec['status'] = 'killed-by-repo-suite'
        return rec
    rec['status'] = 'SURVIVED'
    rec['checks'] = {}
    env = dict(ENV, VERIF_REPO=wt, VERIF_OUT=vout)
    for c in ORDER:
        home = os.environ.get('VERIF_HOME', '/verif')  # a frozen copy of the harness may be used while /verif is being edited
        rc, out = sh([home + '/run.sh', c, 'quick'], cwd=home, env=env, timeout=1200)
        rec['checks'][c] = rc
        if rc == 1:
            rec['status'] = 'caught'
            rec['caught_by'] = c
            cls = re.findall(r'class=(\S+)', out)
            rec['class'] = cls[0] if cls else ''
            break
    if rec['status'] == 'SURVIVED':
        os.makedirs(os.path.join(outdir, 'survivors'), exist_ok=True)
        _, d = sh(['git', 'diff'], cwd=wt)
        open(os.path.join(outdir, 'survivors', '%d.diff' % idx), 'w').write(d)
    return rec

def main():
    ap = argparse.ArgumentParser()
    ap.add_argument('first', type=int)
    ap.add_argument('count', type=int)
    ap.add_argument('--seed', default='1')
    ap.add_argument('--workers', type=int, default=3)
    ap.add_argument('--out', default='/verif/.work/campaign')
    ap.add_argument('--dry', action='store_true')
    a = ap.parse_args()
    os.makedirs(a.out, exist_ok=True)
    if a.dry:
        for i in range(a.first, a.first + a.count):
            m = make_mutant(a.seed, i)
            print(i, m and (m[0], m[1], m[3]))
        return
    idxs = list(range(a.first, a.first + a.count))
    def work(w):
        for i in idxs[w::a.workers]:
            rec = judge(w, a.seed, i, a.out)
            with open(os.path.join(a.out, 'results.jsonl'), 'a') as f:
                f.write(json.dumps(rec) + '\n')
            print(json.dumps(rec), flush=True)
        sh(['git', '-C', REPO, 'worktree', 'remove', '--force', '/tmp/wt-camp-%d' % w])
        shutil.rmtree('/verif/.work/camp-%d' % w, ignore_errors=True)
    with ThreadPoolExecutor(a.workers) as ex:
        list(ex.map(work, range(a.workers)))

if __name__ == '__main__':
    main()
