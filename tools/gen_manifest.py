#!/usr/bin/env python3
# Regenerates /verif/MANIFEST.json from the table below (kept in one place so that it stays valid).
import json, sys
CHECKS = {
 # id: (technique, level text, level note, design_ref)
 "C01": ("runtime reference-model monitor: generated canonical values through the real Encode/Decode, structural-equality oracle with independently recomputed length/checksum",
         "Exploration: every one of the 170 codecs is driven with PRNG-determined canonical values (boundary-biased numbers, float bit patterns, hostile text, lists, every registered discriminator key) and the decoded message is compared bit-for-bit with the original. Holds on the executions observed; values not generated are not covered.",
         "Trusts Go reflection and the harness's own equality/clone code; the pinned schema only steers generation.", "§3 C01"),
}
NOT_YET = {}
def main():
    props=[json.loads(l) for l in open('/verif/properties.jsonl')]
    checks=[]; na=[]
    for p in props:
        i=p['id']
        if i in CHECKS:
            tech,text,note,ref=CHECKS[i]
            checks.append({"property_id":i,"quick_cmd":"./run.sh %s quick"%i,"thorough_cmd":"./run.sh %s thorough"%i,
              "evidence_file":"/verif/evidence/%s.json"%i,"replay_cmd_template":"./run.sh replay {path}","engine":"vcheck",
              "level_claimed":{"category":"exploration","text":text,"design_ref":"DESIGN.md "+ref},"level_note":note,"technique":tech})
        else:
            na.append({"property_id":i,"reason":NOT_YET.get(i,"monitor designed in DESIGN.md but not yet built and validated in this round; not claimed until it is")})
    m={"version":1,"setup_cmd":"./run.sh setup",
       "hooks":{"guard":"verif","enable":"no hooks are needed: every property is observed at the public API; the harness module replaces the library with /repo and rebuilds on every run (go build [-race] -tags verif would enable hooks if any existed)",
                "baseline_off_cmd":"cd /repo && GOFLAGS=-mod=mod GOPROXY=off go test -mod=mod -json -vet=off -count=1 -timeout 25m ./...","source_commits":[],"add_only":True},
       "engines":[{"name":"vcheck","path":"/verif/harness","serves_properties":[c["property_id"] for c in checks],
                   "kind_free_text":"Go harness (module verif, replace => /repo): schema-driven workload generators, independent reference codec, panic trap, child-process isolation, allocation meter, porcupine linearizability checker, Go race detector"}],
       "checks":checks,"not_applicable":na,
       "notes":"All verdicts are 'held on the executions observed'. Exit 0 held, 1 violated (VIOLATION line + replay file), 2 inconclusive (never on the unchanged tree). VERIF_SEED selects the PRNG seed (default 1)."}
    json.dump(m,open('/verif/MANIFEST.json','w'),indent=1); print("checks:",len(checks),"not_applicable:",len(na))
main()
