#!/usr/bin/env python3
# Regenerates /verif/MANIFEST.json from the table below (kept in one place so that it stays valid).
import json, sys
CHECKS = {
 # id: (technique, level text, level note, design_ref)
 "C01": ("runtime reference-model monitor: generated canonical values through the real Encode/Decode, structural-equality oracle with independently recomputed length/checksum",
         "Exploration: every one of the 170 codecs is driven with PRNG-determined canonical values (boundary-biased numbers, float bit patterns, hostile text, lists, every registered discriminator key, lists and texts at exactly their prefix maxima) and the decoded message is compared bit-for-bit with the original; texts that collide under CRC-32, FNV-1a-32 and FNV-1a-64 are round-tripped one after the other in one process. Holds on the executions observed; values not generated are not covered.",
         "Trusts Go reflection and the harness's own equality/clone code; the pinned schema only steers generation.", "§3 C01"),
 "C02": ("runtime reference-model monitor: independent interpreter of the pinned wire schema compared byte-for-byte (encode) and value-for-value (decode) with the real codecs on generated canonical, arbitrary and wire-level inputs",
         "Exploration: per message type ('program') the library and an independent schema interpreter are run side by side on PRNG-determined values and images; any byte, accept/reject, consumed-length or value disagreement is a violation. Catches two-sided layout changes that every round-trip test is blind to. Holds on the executions observed.",
         "Trusts the frozen schema snapshot (extracted once from the pinned commit, Encode and Decode renderings cross-checked) and the 300-line reference codec, which is anchored by hand-written golden vectors in the self-test.", "§3 C02, §2.2"),
 "C03": ("runtime monitor of wire tokens: LE primitive output compared with token-wise byte-reversed BE output for 107 instantiated primitive pairs (built-in and defined element/prefix types); every multi-byte numeric token of every message checked against the module's single byte order",
         "Exploration: all big/little-endian primitive pairs instantiated for every prefix and element type are driven with generated values, and every numeric token (scalar, count, element, text length, computed length, computed checksum) of every message type is located by the pinned schema and checked for the module's byte order. Holds on the executions observed.",
         "Token positions come from the pinned schema; the per-module byte order is data of the oracle (no per-field override exists in the schema format).", "§3 C03"),
 "C04": ("runtime invariant monitor on frame encodes: length token vs. appended bytes vs. object field vs. reference body length, under 9 buffer histories and stale caller values",
         "Exploration: every self-measuring frame type × every registered body type × 5 body kinds × 9 buffer histories × 5 stale caller values (thorough: repeated with fresh random content and >8 MiB frames); caller-supplied body types (plain and refusing) in every frame; the whole check re-runs in a child with the checksum registry emptied and in a child whose services read their input buffer to the end. Holds on the executions observed.",
         "Frame header positions come from the pinned schema.", "§3 C04"),
 "C05": ("runtime invariant monitor on frame encodes: trailer vs. object field vs. own byte-sum / bitwise CRC-32 over exactly the appended frame bytes, under 9 buffer histories",
         "Exploration: every checksummed frame type × every registered body type × body kinds × buffer histories (prior content, partly consumed, reallocation) × stale values; the checksum span is pinned to the bytes this Encode appended; frames whose CRC-32 is exactly 0, 1, 0xFFFFFFFF or the stale value are constructed by solving the CRC over GF(2); re-run with services that read their input buffer to the end. Holds on the executions observed.",
         "Own checksum implementations are self-tested on published check values.", "§3 C05"),
 "C06": ("runtime differential monitor: encode under 9 buffer histories vs. encode of a deep clone into a fresh buffer; prefix-preservation, re-encode and sequence-concatenation oracles",
         "Exploration: all 170 types × generated values × 9 buffer histories, re-encodes of the same object, and mixed-type sequences with partial drains and interleaved encodes that must fail (over-long list, unregistered key, caller-supplied body that writes N bytes and refuses); an equal message encoded first and then overwritten in place; re-run with services that read their input buffer to the end. Holds on the executions observed.",
         "Trusts bytes.Buffer and the harness deep-clone.", "§3 C06"),
 "C07": ("runtime monitor of buffer state after Decode: unread remainder compared byte-for-byte with the known tail; stream oracle over mixed frame sequences",
         "Exploration: all 170 types × generated canonical values × 4 kinds of trailing bytes, plus mixed-type streams (concatenated and through one shared send buffer) decoded by n successive calls. Holds on the executions observed.",
         "Trusts bytes.Buffer; values come from the canonical generator.", "§3 C07"),
 "C08": ("runtime differential monitor: decode of wire-level (encoder-unreachable) and mutated images, re-encode, byte comparison with the consumed bytes (computed tokens must be correct)",
         "Exploration: images built token by token from the pinned schema (arbitrary pad placement, interior NUL, -0/sNaN, garbage or correct computed fields) and bit-flipped valid images; reference images at the prefix maxima; every accepted image is re-encoded and compared with the bytes consumed. Acceptance sets are sampled, not enumerated.",
         "Token positions of computed fields come from the pinned schema; own checksum implementations.", "§3 C08"),
 "C09": ("runtime monitor with panic trap, child-process isolation (RLIMIT_AS 2 GiB, pre-logged in-flight input) and an allocation-count step proxy on hostile inputs",
         "Exploration: every decoder × random, truncated, bit-flipped, site-directed (every length/count/body-length token set to maximal and wrap-around values in both byte orders, also in receive buffers with 4 MiB spare capacity) and unknown-discriminator inputs, plus a run-time re-registration scenario per table; inputs shorter than the shortest possible message of the type must be rejected; every exported prefixed reader primitive at every prefix width (u8..u64) gets hostile prefixes too; a panic, a dead child, a nil result on such a short input, or more reader steps than 256+8·len refutes. Holds on the inputs observed.",
         "Step proxy relies on every reader loop iteration allocating at least once (true for binary.Read under the pinned toolchain; otherwise the bound only gets weaker, never a false alarm).", "§3 C09"),
 "C10": ("runtime allocation meter (runtime.MemStats.TotalAlloc delta around each Decode in a single-goroutine child) on site-directed hostile inputs",
         "Exploration: every length/count site of the schema is driven with maximal prefixes followed by 0/1/16 bytes or the valid remainder, plus random and legitimate large inputs; a legitimately large image is decoded before the small hostile one for the same key; alloc <= 32 KiB + 40·len(input). All 66 sites must be reached or the run is inconclusive.",
         "The constants are calibrated against the measured worst legitimate ratio, which every run reports.", "§3 C10"),
 "C11": ("runtime monitor: every strict prefix of valid images is fed to the decoder; any nil error refutes",
         "Exploration with an exhaustively enumerated inner dimension: per generated value every cut position 0..len-1 (token boundaries ±1 and 256 random cuts for images > 4 KiB); the complete image is decoded first, texts recur across cases, and the check re-runs with the checksum registry emptied. Holds on the values generated.",
         "Values come from the canonical generator; soundness of 'must reject' rests on C07 (exact consumption).", "§3 C11"),
 "C12": ("runtime monitor against pinned key→type tables: decode, encode-fill and factory probes over registered keys and large swept/sampled unregistered key spaces",
         "Exploration with exhaustively enumerated sub-spaces: all 226 registered keys (type identity + round trip + encode-fill bytes), the whole u16 key space, all u32 keys < 2^20 (thorough 2^24) plus neighbourhoods, and for string tables all strings of length <= 3 over a small alphabet (thorough: all byte strings <= 3). Constructor results with only the key set must encode like zero values with only the key set; run-time re-registration through the exported Registry…Factory functions is honoured (child process). Unregistered keys are presented alone, as the last bytes of the input, followed by a valid frame, and into used receivers. The claim stays exploration because the u32 spaces are not swept completely.",
         "The key→type tables are frozen data of the pinned commit.", "§3 C12"),
 "C13": ("runtime reference-model monitor for fixed-width text primitives: exhaustive small scope plus random, against a 10-line pad/cut/strip model",
         "Exploration with an exhaustively enumerated small scope (N<=3 × 256 pad bytes × both sides × all texts over a 5-symbol alphabet) and random widths up to 65536; default wrappers and list variants per element; every fixed-text field of every message type (value, padding and emitted width); hash-colliding texts read one after the other.",
         "Pad characters above 0xFF are outside 'pad byte'.", "§3 C13"),
 "C14": ("runtime reference-model monitor for the four checksum services: exhaustive short strings, random and multi-MiB inputs against own implementations; buffer non-consumption and repeatability observed",
         "Exploration with an exhaustively enumerated sub-space (all strings <= 2 bytes quick, <= 3 bytes thorough) plus random strings to 64 KiB, the specific lengths at which 32-bit accumulators overflow, sentinel bytes around the data, in-place patch sequences on one large buffer, and a re-run after the registry was emptied.",
         "Own CRC/sum implementations are self-tested on published check values.", "§3 C14"),
 "C15": ("runtime differential monitor: the same image decoded into a fresh receiver and into seven kinds of dirty receivers, structural-equality oracle",
         "Exploration: all 170 types × valid, wire-level and mutated images × 7 receiver histories (populated object, previously decoded other image, after a failed truncated decode, aliased sub-objects with numeric lists sharing one backing array, near miss of the expected result, decoded-then-failed, hand-built with mismatching discriminator and body). Holds on the executions observed.",
         "Receiver histories are generated, not enumerated.", "§3 C15"),
 "C16": ("runtime aliasing monitor: snapshot comparison after scribbling over / reusing the source bytes and after mutating the message; pooled-object random walk judged against the stateless reference interpreter; repeated under the race-detector build (checkptr)",
         "Exploration: all 170 types × values with non-empty lists; decoded message vs deep snapshot after complementing the backing array, resetting/reusing the buffer, decoding another message; written bytes vs snapshot after in-place mutation of the message; a pool of long-lived objects and buffers reused for many random operations (no operation may change another object; every result must equal the stateless reference); small frames decoded from a 96 MiB source; decodes after 300 000 distinct texts; an equal twin overwritten in place; lists kept by the caller across receiver reuse; encoder-filled bodies of different messages must be independent; zero checkptr/race aborts in the instrumented run.",
         "checkptr flags only invalid unsafe conversions; valid zero-copy aliases are caught by the snapshot oracle instead.", "§3 C16"),
 "C17": ("runtime monitor with panic trap and child-process isolation over zero, constructor and arbitrary values of every type",
         "Exploration: every type × zero value, constructor result, arbitrary field contents, every registered key with nil body, unregistered keys, each nested pointer part nil, every text length 0..2200 and list count 0..1100, frames whose body must refuse (thorough: 70 000-element lists), into nine kinds of destination buffer; checksummed frames also with their service unregistered. A panic or a dead child refutes.",
         "Values with nil list elements or typed-nil bodies are excluded as the property says.", "§3 C17"),
 "C18": ("runtime monitor at the prefix limits: every prefixed writer and every prefixed field of every message at max and max+1 (u32 text via an untouched 4 GiB mapping and 2^32 zero-sized list entries, in a child)",
         "Exploration at enumerated boundary points: all prefixed primitives × u8/u16 and defined types over them × {max-1,max,max+1,2max+1}; every prefixed field of every message type at max (round trip) and max+1 (must error), also along every path from an enclosing message down to such a field - list element, nested part, frame body, application extension, extension inside a body inside a frame - (the refusal must propagate to the outermost Encode); 2^32-byte texts and 2^32 zero-sized entries behind u32 prefixes; u32/u64 prefixes at small and boundary-crossing lengths must encode and round-trip.",
         "Field enumeration comes from the pinned schema.", "§3 C18"),
 "C19": ("linearizability checking (porcupine v1.3.0) of recorded concurrent histories of Registry/Get/Remove/Clear and of real frame encodes whose trailer reveals the registration they looked up, against a sequential map model; plus the Go race detector on the same workload",
         "Exploration over schedules: thousands of short, genuinely overlapping histories of Registry/Get/Remove/Clear with unique-id services are recorded at the client boundary and checked; the same workload runs under -race; drain histories (70 names removed one by one while others register); ten fresh processes start with Clear/Remove/Registry/Get on the built-in names as their very first registry calls, five of them with frame encodes/decodes in between while the name holds nothing, a built-in, or a service of another result type (library work never changes the registry). Holds on the histories and accesses observed.",
         "Monitors use no shared state inside the measured region; checker timeouts are inconclusive.", "§3 C19"),
 "C20": ("Go race detector plus result-equality oracle over 64 goroutines encoding/decoding private objects of all types; fresh-process first-use trials",
         "Exploration over schedules: parallel results are compared with sequentially precomputed ones for all 170 types while the checksum registry and 18 discriminator maps are read concurrently and the four checksum services are also called directly, with aligned failing encodes in between; 16 goroutines hammering different keys of one discriminator table at a time; failure bursts (a failing encode then a burst of ordinary ones, on 32 goroutines at once); the workload runs in a plain, a -race and a registry-emptied child; -race build reports are counted from the log; first-use trials start every table's first access concurrently in fresh processes.",
         "The race detector judges only accesses performed by the workload.", "§3 C20"),
}
NOT_YET = {}
def main():
    props=[json.loads(l) for l in open('/verif/properties.jsonl')]
    checks=[]; na=[]
    for p in props:
        i=p['id']
        if i in CHECKS:
            tech,text,note,ref=CHECKS[i]
            checks.append({"property_id":i,"quick_cmd":"./run.sh %s quick"%i,"thorough_cmd":"./run.sh %s thorough"%i,
              "evidence_file":"/verif/evidence/%s.json"%i,"replay_cmd_template":"./run.sh replay {path}","engine":"vcheck",
              "level_claimed":{"category":"exploration","text":text,"design_ref":"DESIGN.md "+ref},"level_note":note,"technique":tech})
        else:
            na.append({"property_id":i,"reason":NOT_YET.get(i,"monitor designed in DESIGN.md but not yet built and validated in this round; not claimed until it is")})
    m={"version":1,"setup_cmd":"./run.sh setup",
       "hooks":{"guard":"verif","enable":"no hooks are needed: every property is observed at the public API; the harness module replaces the library with /repo and rebuilds on every run (go build [-race] -tags verif would enable hooks if any existed)",
                "baseline_off_cmd":"cd /repo && GOFLAGS=-mod=mod GOPROXY=off go test -mod=mod -json -vet=off -count=1 -timeout 25m ./...","source_commits":[],"add_only":True},
       "engines":[{"name":"vcheck","path":"/verif/harness","serves_properties":[c["property_id"] for c in checks],
                   "kind_free_text":"Go harness (module verif, replace => /repo): schema-driven workload generators, independent reference codec, panic trap, child-process isolation, allocation meter, porcupine linearizability checker, Go race detector"}],
       "checks":checks,"not_applicable":na,
       "notes":"All verdicts are 'held on the executions observed'. Exit 0 held, 1 violated (VIOLATION line + replay file), 2 inconclusive (never on the unchanged tree). VERIF_SEED selects the PRNG seed (default 1)."}
    json.dump(m,open('/verif/MANIFEST.json','w'),indent=1); print("checks:",len(checks),"not_applicable:",len(na))
main()
