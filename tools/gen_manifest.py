#!/usr/bin/env python3
# Regenerates /verif/MANIFEST.json from the table below (kept in one place so that it stays valid).
import json, sys
CHECKS = {
 # id: (technique, level text, level note, design_ref)
 "C01": ("runtime reference-model monitor: generated canonical values through the real Encode/Decode, structural-equality oracle with independently recomputed length/checksum",
         "Exploration: every one of the 170 codecs is driven with PRNG-determined canonical values (boundary-biased numbers, float bit patterns, hostile text, lists, every registered discriminator key) and the decoded message is compared bit-for-bit with the original. Holds on the executions observed; values not generated are not covered.",
         "Trusts Go reflection and the harness's own equality/clone code; the pinned schema only steers generation.", "§3 C01"),
 "C02": ("runtime reference-model monitor: independent interpreter of the pinned wire schema compared byte-for-byte (encode) and value-for-value (decode) with the real codecs on generated canonical, arbitrary and wire-level inputs",
         "Exploration: per message type ('program') the library and an independent schema interpreter are run side by side on PRNG-determined values and images; any byte, accept/reject, consumed-length or value disagreement is a violation. Catches two-sided layout changes that every round-trip test is blind to. Holds on the executions observed.",
         "Trusts the frozen schema snapshot (extracted once from the pinned commit, Encode and Decode renderings cross-checked) and the 300-line reference codec, which is anchored by hand-written golden vectors in the self-test.", "§3 C02, §2.2"),
 "C03": ("runtime monitor of wire tokens: LE primitive output compared with token-wise byte-reversed BE output for 82 instantiated primitive pairs; every multi-byte numeric token of every message checked against the module's single byte order",
         "Exploration: all big/little-endian primitive pairs instantiated for every prefix and element type are driven with generated values, and every numeric token (scalar, count, element, text length, computed length, computed checksum) of every message type is located by the pinned schema and checked for the module's byte order. Holds on the executions observed.",
         "Token positions come from the pinned schema; the per-module byte order is data of the oracle (no per-field override exists in the schema format).", "§3 C03"),
 "C04": ("runtime invariant monitor on frame encodes: length token vs. appended bytes vs. object field vs. reference body length, under 7 buffer histories and stale caller values",
         "Exploration: every self-measuring frame type × every registered body type × 4 body kinds × 7 buffer histories × 4 stale caller values (thorough: repeated with fresh random content and >8 MiB frames). Holds on the executions observed.",
         "Frame header positions come from the pinned schema.", "§3 C04"),
 "C05": ("runtime invariant monitor on frame encodes: trailer vs. object field vs. own byte-sum / bitwise CRC-32 over exactly the appended frame bytes, under 7 buffer histories",
         "Exploration: every checksummed frame type × every registered body type × body kinds × buffer histories (prior content, partly consumed, reallocation) × stale values; the checksum span is pinned to the bytes this Encode appended. Holds on the executions observed.",
         "Own checksum implementations are self-tested on published check values.", "§3 C05"),
 "C06": ("runtime differential monitor: encode under 7 buffer histories vs. encode of a deep clone into a fresh buffer; prefix-preservation, re-encode and sequence-concatenation oracles",
         "Exploration: all 170 types × generated values × 7 buffer histories, re-encodes of the same object, and mixed-type sequences with partial drains. Holds on the executions observed.",
         "Trusts bytes.Buffer and the harness deep-clone.", "§3 C06"),
}
NOT_YET = {}
def main():
    props=[json.loads(l) for l in open('/verif/properties.jsonl')]
    checks=[]; na=[]
    for p in props:
        i=p['id']
        if i in CHECKS:
            tech,text,note,ref=CHECKS[i]
            checks.append({"property_id":i,"quick_cmd":"./run.sh %s quick"%i,"thorough_cmd":"./run.sh %s thorough"%i,
              "evidence_file":"/verif/evidence/%s.json"%i,"replay_cmd_template":"./run.sh replay {path}","engine":"vcheck",
              "level_claimed":{"category":"exploration","text":text,"design_ref":"DESIGN.md "+ref},"level_note":note,"technique":tech})
        else:
            na.append({"property_id":i,"reason":NOT_YET.get(i,"monitor designed in DESIGN.md but not yet built and validated in this round; not claimed until it is")})
    m={"version":1,"setup_cmd":"./run.sh setup",
       "hooks":{"guard":"verif","enable":"no hooks are needed: every property is observed at the public API; the harness module replaces the library with /repo and rebuilds on every run (go build [-race] -tags verif would enable hooks if any existed)",
                "baseline_off_cmd":"cd /repo && GOFLAGS=-mod=mod GOPROXY=off go test -mod=mod -json -vet=off -count=1 -timeout 25m ./...","source_commits":[],"add_only":True},
       "engines":[{"name":"vcheck","path":"/verif/harness","serves_properties":[c["property_id"] for c in checks],
                   "kind_free_text":"Go harness (module verif, replace => /repo): schema-driven workload generators, independent reference codec, panic trap, child-process isolation, allocation meter, porcupine linearizability checker, Go race detector"}],
       "checks":checks,"not_applicable":na,
       "notes":"All verdicts are 'held on the executions observed'. Exit 0 held, 1 violated (VIOLATION line + replay file), 2 inconclusive (never on the unchanged tree). VERIF_SEED selects the PRNG seed (default 1)."}
    json.dump(m,open('/verif/MANIFEST.json','w'),indent=1); print("checks:",len(checks),"not_applicable:",len(na))
main()
