#!/usr/bin/env python3
# usage: mkmut.py <out.diff> <file> <old> <new> [<file> <old> <new> ...]   (paths relative to /repo; exact-string replacement, must match once)
import sys, subprocess
out=sys.argv[1]; a=sys.argv[2:]
assert subprocess.run(['git','-C','/repo','status','--porcelain'],capture_output=True,text=True).stdout=='', '/repo dirty'
try:
    for i in range(0,len(a),3):
        p='/repo/'+a[i]; s=open(p).read()
        old=a[i+1].encode().decode('unicode_escape'); new=a[i+2].encode().decode('unicode_escape')
        assert s.count(old)==1, (a[i], s.count(old))
        open(p,'w').write(s.replace(old,new))
    d=subprocess.run(['git','-C','/repo','diff'],capture_output=True,text=True).stdout
    open(out,'w').write(d); print(out, len(d.splitlines()),'lines')
finally:
    subprocess.run(['git','-C','/repo','checkout','--','.'])
