#!/bin/bash
# usage: tools/try_mut.sh [-R] [-t] <patch-file|commit> <check ids...>
# Judges a candidate change WITHOUT touching /repo: scratch worktree of /repo HEAD under /tmp, patch applied there,
# checks run with VERIF_REPO pointing at it, worktree removed afterwards.   -R reverse-apply; -t also run the repo's own test suite there.
rev=""; tests=0
while [ "${1:0:1}" = "-" ]; do case "$1" in -R) rev="-R";; -t) tests=1;; esac; shift; done
p=$1; shift
wt=$(mktemp -d /tmp/wt-mut.XXXXXX); rmdir "$wt"
git -C /repo worktree add -q --detach "$wt" HEAD || exit 2
trap 'git -C /repo worktree remove --force "$wt" 2>/dev/null; rm -rf "/verif/.work/alt-$(echo "$wt" | md5sum | cut -c1-8)"' EXIT
cd "$wt"
if [ -f "$p" ]; then git apply $rev "$p" 2>/dev/null || git apply $rev --3way "$p" || exit 2; else git -C /repo show "$p" | git apply $rev --3way || exit 2; fi
if [ $tests = 1 ]; then
  r=$(GOFLAGS=-mod=mod GOPROXY=off go test -vet=off -count=1 ./... 2>&1 | grep -v "^ok" | head -5); echo "== repo suite: ${r:-all packages ok}"
fi
cd /verif
for c in "$@"; do
  out=$(VERIF_REPO=$wt ./run.sh $c ${TIER:-quick} 2>&1); rc=$?
  nv=$(echo "$out" | grep -c '^VIOLATION')
  echo "== $c rc=$rc violation_lines=$nv :: $(echo "$out" | grep -m3 'class=' | tr '\n' ' ')"
done
