#!/bin/bash
# usage: tools/import_seed.sh <out dir of a sub-agent> <Cxx> <a|b> <suffix in seeded/>   e.g. /tmp/seed2/C05/out C05 a c
src=$1; id=$2; x=$3; suf=$4
d=/verif/seeded/$id$suf; mkdir -p $d
cp $src/patch_$x.diff $d/patch.diff; cp $src/demo_${x}_test.go $d/demo_test.go 2>/dev/null || cp $src/demo_${x}_test.go.txt $d/demo_test.go; cp $src/notes_$x.md $d/notes.md
dest=$(head -1 $d/notes.md | sed -n 's/^DEST: *//p' | tr -d '`' | tr -d ' ')
[ -z "$dest" ] && dest=$(grep -o '[a-z-]*\(/messages\)\?/zz_demo_[a-z_0-9]*_test\.go' $d/notes.md | head -1)
run=$(grep -o 'func Test[A-Za-z0-9_]*' $d/demo_test.go | sed 's/func //' | tr '\n' '|' | sed 's/|$//')
python3 - "$id" "$suf" "$dest" "$run" "${5:-2}" <<'PY'
import json,sys
id,suf,dest,run=sys.argv[1:5]
json.dump({"breaks_property":id,"variant":suf,"wave":int(sys.argv[5]) if len(sys.argv)>5 else 2,"demo_destination":dest,"demo_run":"go test -vet=off -count=1 -run '%s' ./%s/"%(run,dest.rsplit('/',1)[0]),
 "files":{"patch":"patch.diff","demonstration":"demo_test.go","author_notes":"notes.md (written by the sub-agent that produced the change; it never saw /verif)"}},open('/verif/seeded/%s%s/meta.json'%(id,suf),'w'),indent=1)
PY
echo "$id$suf dest=$dest"
