#!/bin/bash
# usage: tools/try_patch.sh [-R] <patch-file|commit> <check ids...>   applies a patch to /repo, runs quick checks, restores /repo
rev=""; if [ "$1" = "-R" ]; then rev="-R"; shift; fi
p=$1; shift
cd /repo || exit 2
if [ -n "$(git status --porcelain)" ]; then echo "/repo dirty"; exit 2; fi
if [ -f "$p" ]; then git apply $rev "$p" || git apply $rev --3way "$p" || exit 2; else git show "$p" | git apply $rev --3way || exit 2; fi
trap 'git -C /repo reset -q --hard HEAD; git -C /repo clean -fdq' EXIT
cd /verif
for c in "$@"; do
  out=$(./run.sh $c ${TIER:-quick} 2>&1); rc=$?
  nv=$(echo "$out" | grep -c '^VIOLATION')
  echo "== $c rc=$rc violation_lines=$nv :: $(echo "$out" | grep -m3 'class=' | tr '\n' ' ')"
done
