#!/bin/bash
# Entry point named in MANIFEST.json.
#   ./run.sh setup                 build the harness from disk, run the oracle self-test
#   ./run.sh <Cxx> quick|thorough  rebuild against /repo's working tree, run one property monitor
#   ./run.sh replay <file>         re-run the recorded case class of a violation
# Exit: 0 held on everything observed, 1 violated (VIOLATION line printed), 2 inconclusive.
set -u
cd "$(dirname "$0")"
ROOT=$(pwd)
export VERIF_ROOT=$ROOT
export GOFLAGS=-mod=mod GOPROXY=off GOTOOLCHAIN=auto
unset GOSUMDB GOWORK
export GOWORK=off
# VERIF_REPO (default /repo) lets the same checks judge another checkout (a scratch worktree holding a
# candidate change) without touching /repo: the library replacement is redirected through -modfile and all
# output (evidence, replays, scratch) goes to VERIF_OUT.  Registered commands never set it.
REPO=${VERIF_REPO:-/repo}
MODFLAG=""
if [ "$REPO" != /repo ]; then
  export VERIF_OUT=${VERIF_OUT:-$ROOT/.work/alt-$(echo "$REPO" | md5sum | cut -c1-8)}
  mkdir -p "$VERIF_OUT"
  sed "s#=> /repo#=> $REPO#" "$ROOT/harness/go.mod" > "$VERIF_OUT/alt.mod"; cp "$ROOT/harness/go.sum" "$VERIF_OUT/alt.sum"
  MODFLAG="-modfile=$VERIF_OUT/alt.mod"
fi
OUT=${VERIF_OUT:-$ROOT}
WORK=$OUT/.work
mkdir -p "$WORK/bin" "$OUT/evidence" "$OUT/replays"
GO=go
if ! (cd "$ROOT/harness" && $GO version >/dev/null 2>&1); then
  # fallback toolchain (see DESIGN §2.1)
  GO=/opt/veriftools/go1.26.8/bin/go; export GOTOOLCHAIN=local
fi

build() { # $1 = output name, rest = extra build flags
  # Each registered command gets its own binary (name suffixed with the property id), written under a private
  # name and renamed into place, so that several checks may be run at the same time from one /verif.
  local out=$1; shift
  (cd "$ROOT/harness" && $GO build $MODFLAG "$@" -o "$WORK/bin/$out.$$" ./cmd/vcheck) 2>"$WORK/build-$out.log"
  local rc=$?
  if [ $rc -ne 0 ]; then
    rm -f "$WORK/bin/$out.$$"
    echo "INCONCLUSIVE harness does not build against /repo's working tree ($out):"; head -30 "$WORK/build-$out.log"
    exit 2
  fi
  mv -f "$WORK/bin/$out.$$" "$WORK/bin/$out"
}

cmd=${1:-}
case "$cmd" in
  setup)
    build vcheck-race -race
    build vcheck
    "$WORK/bin/vcheck" selftest | tail -3
    exit ${PIPESTATUS[0]}
    ;;
  replay)
    build vcheck-replay
    build vcheck-race-replay -race
    export VERIF_BIN=$WORK/bin/vcheck-replay VERIF_BIN_RACE=$WORK/bin/vcheck-race-replay
    exec "$WORK/bin/vcheck-replay" replay "$2"
    ;;
  C[0-9][0-9])
    tier=${2:-${VERIF_TIER:-quick}}
    shift; shift || true
    build vcheck-$cmd
    case "$cmd" in
      C16|C19|C20) build vcheck-race-$cmd -race ;;
    esac
    export VERIF_BIN=$WORK/bin/vcheck-$cmd VERIF_BIN_RACE=$WORK/bin/vcheck-race-$cmd
    exec "$WORK/bin/vcheck-$cmd" "$cmd" --tier "$tier" "$@"
    ;;
  *)
    echo "usage: $0 setup | <Cxx> quick|thorough | replay <file>"; exit 2 ;;
esac
