// Package ref is the independent interpreter of the pinned schema: it encodes
// and decodes library message structs (reached by reflection on field names)
// using only the frozen schema data and its own integer/padding/checksum code.
// It shares no code with /repo/codec.
package ref

import (
	"errors"
	"fmt"
	"math"
	"reflect"
	"sync"
	"unsafe"

	"verif/internal/schema"
	"verif/internal/val"
)

var (
	ErrTooLong    = errors.New("ref: value longer than its length prefix can represent")
	ErrDomain     = errors.New("ref: value outside the encodable domain (nil list element / unknown dynamic type)")
	ErrUnknownKey = errors.New("ref: unregistered discriminator")
	ErrShort      = errors.New("ref: input shorter than the message")
	ErrBind       = errors.New("ref: library struct does not match the pinned schema")
)

// Token is one wire token of an encoded/decoded image.
type Token struct {
	Path string // e.g. "Body.SetId[3]"
	Cat  string // scalar | count | elem | strlen | bodylen | checksum | text | key
	Off  int
	W    int
	Num  bool   // numeric (endianness applies)
	Val  uint64 // numeric value (bit pattern) when Num
	Site string // "<pkg.Type>.<Field>": the schema field this token belongs to (reader/writer call site)
}

type Codec struct {
	S   *schema.Schema
	New map[string]func() any // qualified type name -> new zero value (pointer)

	mu     sync.Mutex
	byType map[reflect.Type]*schema.Type
}

func New(s *schema.Schema, news map[string]func() any) *Codec {
	c := &Codec{S: s, New: news, byType: map[reflect.Type]*schema.Type{}}
	for q, f := range news {
		if t := s.Types[q]; t != nil {
			c.byType[reflect.TypeOf(f())] = t
		}
	}
	return c
}

// TypeOf maps a library message (pointer) to its pinned schema type, nil if unknown.
func (c *Codec) TypeOf(msg any) *schema.Type {
	if msg == nil {
		return nil
	}
	return c.byType[reflect.TypeOf(msg)]
}

// ---------------------------------------------------------------- integer rendering

func putInt(out []byte, w int, x uint64, le bool) []byte {
	for i := 0; i < w; i++ {
		sh := uint(8 * i)
		if !le {
			sh = uint(8 * (w - 1 - i))
		}
		out = append(out, byte(x>>sh))
	}
	return out
}

func getInt(b []byte, le bool) uint64 {
	var x uint64
	w := len(b)
	for i := 0; i < w; i++ {
		sh := uint(8 * i)
		if !le {
			sh = uint(8 * (w - 1 - i))
		}
		x |= uint64(b[i]) << sh
	}
	return x
}

func setF32Bits(v reflect.Value, bits uint32) {
	*(*uint32)(unsafe.Pointer(v.UnsafeAddr())) = bits
}

func scalarBits(v reflect.Value, kind string) (uint64, error) {
	switch kind {
	case "i8", "i16", "i32", "i64":
		if !v.CanInt() {
			return 0, fmt.Errorf("%w: %s held in %s", ErrBind, kind, v.Type())
		}
		if v.Type().Size() != uintptr(schema.Width(kind)) {
			return 0, fmt.Errorf("%w: %s held in %s", ErrBind, kind, v.Type())
		}
		return uint64(v.Int()), nil
	case "u8", "u16", "u32", "u64":
		if !v.CanUint() || v.Type().Size() != uintptr(schema.Width(kind)) {
			return 0, fmt.Errorf("%w: %s held in %s", ErrBind, kind, v.Type())
		}
		return v.Uint(), nil
	case "f32":
		if v.Kind() != reflect.Float32 {
			return 0, fmt.Errorf("%w: f32 held in %s", ErrBind, v.Type())
		}
		return uint64(val.F32Bits(v)), nil
	case "f64":
		if v.Kind() != reflect.Float64 {
			return 0, fmt.Errorf("%w: f64 held in %s", ErrBind, v.Type())
		}
		return math.Float64bits(v.Float()), nil
	}
	return 0, fmt.Errorf("%w: kind %s", ErrBind, kind)
}

func setScalar(v reflect.Value, kind string, x uint64) error {
	if _, err := scalarBits(v, kind); err != nil {
		return err
	}
	switch kind {
	case "i8":
		v.SetInt(int64(int8(x)))
	case "i16":
		v.SetInt(int64(int16(x)))
	case "i32":
		v.SetInt(int64(int32(x)))
	case "i64":
		v.SetInt(int64(x))
	case "u8", "u16", "u32", "u64":
		v.SetUint(x)
	case "f32":
		setF32Bits(v, uint32(x))
	case "f64":
		v.SetFloat(math.Float64frombits(x))
	}
	return nil
}

// ---------------------------------------------------------------- text

// FixWrite is the 10-line model of fixed-width text writing (also used by C13).
func FixWrite(s string, n int, pad byte, left bool) []byte {
	out := make([]byte, 0, n)
	if len(s) >= n {
		return append(out, s[:n]...)
	}
	fill := n - len(s)
	if left {
		for i := 0; i < fill; i++ {
			out = append(out, pad)
		}
	}
	out = append(out, s...)
	if !left {
		for i := 0; i < fill; i++ {
			out = append(out, pad)
		}
	}
	return out
}

// FixRead strips only the pad byte and only from the pad side.
func FixRead(w []byte, pad byte, left bool) string {
	i, j := 0, len(w)
	if left {
		for i < j && w[i] == pad {
			i++
		}
	} else {
		for j > i && w[j-1] == pad {
			j--
		}
	}
	return string(w[i:j])
}

// ---------------------------------------------------------------- checksums (own implementations)

func SumMod256(b []byte) uint64 {
	var s uint64
	for _, x := range b {
		s += uint64(x)
	}
	return s % 256
}

// CRC32 is a bit-wise reflected CRC-32/IEEE (poly 0xEDB88320).
func CRC32(b []byte) uint32 {
	crc := ^uint32(0)
	for _, x := range b {
		crc ^= uint32(x)
		for i := 0; i < 8; i++ {
			if crc&1 != 0 {
				crc = crc>>1 ^ 0xEDB88320
			} else {
				crc >>= 1
			}
		}
	}
	return ^crc
}

var crc16tab = func() (t [256]uint16) {
	for i := 0; i < 256; i++ {
		c := uint16(i)
		for j := 0; j < 8; j++ {
			if c&1 != 0 {
				c = c>>1 ^ 0xA001
			} else {
				c >>= 1
			}
		}
		t[i] = c
	}
	return
}()

// CRC16Modbus is a table-driven CRC-16/MODBUS (init 0xFFFF, poly 0xA001 reflected, no xorout).
func CRC16Modbus(b []byte) uint16 {
	crc := uint16(0xFFFF)
	for _, x := range b {
		crc = crc>>8 ^ crc16tab[byte(crc)^x]
	}
	return crc
}

func Checksum(alg string, b []byte) (uint64, error) {
	switch alg {
	case "SSE_BIN", "SZSE_BIN":
		return SumMod256(b), nil
	case "CRC32":
		return uint64(CRC32(b)), nil
	case "CRC16":
		return uint64(CRC16Modbus(b)), nil
	}
	return 0, fmt.Errorf("unknown checksum algorithm %q", alg)
}

// ---------------------------------------------------------------- encode

type enc struct {
	c    *Codec
	out  []byte
	toks []Token
	tok  bool
	site string
}

func (e *enc) t(path, cat string, off, w int, num bool, val uint64) {
	if e.tok {
		e.toks = append(e.toks, Token{path, cat, off, w, num, val, e.site})
	}
}

// Encode renders msg (pointer to a library struct of pinned type t).
func (c *Codec) Encode(t *schema.Type, msg any) ([]byte, error) {
	e := &enc{c: c}
	err := e.typ(t, reflect.ValueOf(msg).Elem(), "")
	return e.out, err
}

func (c *Codec) EncodeTok(t *schema.Type, msg any) ([]byte, []Token, error) {
	e := &enc{c: c, tok: true}
	err := e.typ(t, reflect.ValueOf(msg).Elem(), "")
	return e.out, e.toks, err
}

func join(p, n string) string {
	if p == "" {
		return n
	}
	return p + "." + n
}

func (e *enc) typ(t *schema.Type, v reflect.Value, path string) error {
	start := len(e.out)
	lenOff, lenW := -1, 0
	var lenField reflect.Value
	lenSite := ""
	for i := range t.Fields {
		f := &t.Fields[i]
		fv := v.FieldByName(f.Name)
		if !fv.IsValid() {
			return fmt.Errorf("%w: %s has no field %s", ErrBind, t.QName, f.Name)
		}
		p := join(path, f.Name)
		e.site = t.QName + "." + f.Name
		switch f.Kind {
		case "bodylen":
			lenOff, lenW = len(e.out), schema.Width(f.Prefix)
			lenField = fv
			lenSite = e.site
			e.out = putInt(e.out, lenW, 0, t.LE)
		case "checksum":
			x, err := Checksum(f.Alg, e.out[start:])
			if err != nil {
				return err
			}
			w := schema.Width(f.Prefix)
			e.t(p, "checksum", len(e.out), w, true, x)
			e.out = putInt(e.out, w, x, t.LE)
		case "union":
			bodyStart := len(e.out)
			if err := e.union(t, f, v, fv, p); err != nil {
				return err
			}
			if lenOff >= 0 {
				n := uint64(len(e.out) - bodyStart)
				tmp := putInt(nil, lenW, n, t.LE)
				copy(e.out[lenOff:], tmp)
				saved := e.site
				e.site = lenSite
				e.t(join(path, "<bodylen>"), "bodylen", lenOff, lenW, true, n)
				e.site = saved
				_ = lenField
				lenOff = -1
			}
		default:
			if err := e.field(t, f, fv, p); err != nil {
				return err
			}
		}
	}
	return nil
}

func (e *enc) keyOf(t *schema.Type, f *schema.Field, v reflect.Value) (any, error) {
	kv := v.FieldByName(f.Key)
	if !kv.IsValid() {
		return nil, fmt.Errorf("%w: no key field %s", ErrBind, f.Key)
	}
	if kv.Kind() == reflect.String {
		return kv.String(), nil
	}
	if kv.CanUint() {
		return kv.Uint(), nil
	}
	return nil, fmt.Errorf("%w: key field %s kind %s", ErrBind, f.Key, kv.Kind())
}

func (e *enc) union(t *schema.Type, f *schema.Field, v, fv reflect.Value, path string) error {
	if fv.Kind() != reflect.Interface {
		return fmt.Errorf("%w: union %s held in %s", ErrBind, f.Name, fv.Type())
	}
	if fv.IsNil() {
		if f.Opt {
			return nil // absent body: nothing on the wire
		}
		key, err := e.keyOf(t, f, v)
		if err != nil {
			return err
		}
		tb := e.c.S.Table(t.Pkg, f.Table)
		tn, ok := tb.ByKey[key]
		if !ok {
			return ErrUnknownKey
		}
		bt := e.c.S.Lookup(t.Pkg, tn)
		zero := reflect.ValueOf(e.c.New[bt.QName]()).Elem()
		return e.typ(bt, zero, path)
	}
	body := fv.Elem()
	bt := e.c.byType[body.Type()]
	if bt == nil || body.IsNil() {
		return ErrDomain
	}
	return e.typ(bt, body.Elem(), path)
}

func (e *enc) field(t *schema.Type, f *schema.Field, fv reflect.Value, path string) error {
	le := t.LE
	switch f.Kind {
	case "fixstr":
		if fv.Kind() != reflect.String {
			return fmt.Errorf("%w: fixstr %s held in %s", ErrBind, f.Name, fv.Type())
		}
		e.t(path, "text", len(e.out), f.N, false, 0)
		e.out = append(e.out, FixWrite(fv.String(), f.N, byte(f.Pad), f.Left)...)
	case "pstr":
		if fv.Kind() != reflect.String {
			return fmt.Errorf("%w: pstr %s held in %s", ErrBind, f.Name, fv.Type())
		}
		s := fv.String()
		if uint64(len(s)) > schema.MaxPrefix(f.Prefix) {
			return ErrTooLong
		}
		w := schema.Width(f.Prefix)
		e.t(path, "strlen", len(e.out), w, true, uint64(len(s)))
		e.out = putInt(e.out, w, uint64(len(s)), le)
		e.t(path, "text", len(e.out), len(s), false, 0)
		e.out = append(e.out, s...)
	case "list":
		if fv.Kind() != reflect.Slice {
			return fmt.Errorf("%w: list %s held in %s", ErrBind, f.Name, fv.Type())
		}
		n := fv.Len()
		if uint64(n) > schema.MaxPrefix(f.Prefix) {
			return ErrTooLong
		}
		w := schema.Width(f.Prefix)
		e.t(path, "count", len(e.out), w, true, uint64(n))
		e.out = putInt(e.out, w, uint64(n), le)
		for i := 0; i < n; i++ {
			ep := path
			if e.tok {
				ep = fmt.Sprintf("%s[%d]", path, i)
			}
			if schema.IsScalar(f.Elem.Kind) {
				x, err := scalarBits(fv.Index(i), f.Elem.Kind)
				if err != nil {
					return err
				}
				ew := schema.Width(f.Elem.Kind)
				e.t(ep, "elem", len(e.out), ew, true, x)
				e.out = putInt(e.out, ew, x, le)
			} else if err := e.field(t, f.Elem, fv.Index(i), ep); err != nil {
				return err
			}
		}
	case "objlist":
		if fv.Kind() != reflect.Slice {
			return fmt.Errorf("%w: objlist %s held in %s", ErrBind, f.Name, fv.Type())
		}
		n := fv.Len()
		if uint64(n) > schema.MaxPrefix(f.Prefix) {
			return ErrTooLong
		}
		w := schema.Width(f.Prefix)
		e.t(path, "count", len(e.out), w, true, uint64(n))
		e.out = putInt(e.out, w, uint64(n), le)
		et := e.c.S.Lookup(t.Pkg, f.Type)
		for i := 0; i < n; i++ {
			el := fv.Index(i)
			if el.Kind() != reflect.Pointer || el.IsNil() {
				return ErrDomain
			}
			ep := path
			if e.tok {
				ep = fmt.Sprintf("%s[%d]", path, i)
			}
			if err := e.typ(et, el.Elem(), ep); err != nil {
				return err
			}
		}
	case "struct":
		st := e.c.S.Lookup(t.Pkg, f.Type)
		if f.Value {
			return e.typ(st, fv, path)
		}
		if fv.Kind() != reflect.Pointer {
			return fmt.Errorf("%w: struct %s held in %s", ErrBind, f.Name, fv.Type())
		}
		if fv.IsNil() { // an absent nested part is rendered as its zero value
			return e.typ(st, reflect.ValueOf(e.c.New[st.QName]()).Elem(), path)
		}
		return e.typ(st, fv.Elem(), path)
	default:
		if !schema.IsScalar(f.Kind) {
			return fmt.Errorf("%w: kind %s", ErrBind, f.Kind)
		}
		x, err := scalarBits(fv, f.Kind)
		if err != nil {
			return err
		}
		w := schema.Width(f.Kind)
		e.t(path, "scalar", len(e.out), w, true, x)
		e.out = putInt(e.out, w, x, le)
	}
	return nil
}

// ---------------------------------------------------------------- decode

type dec struct {
	c    *Codec
	b    []byte
	off  int
	toks []Token
	tok  bool
	site string
}

func (d *dec) t(path, cat string, off, w int, num bool, val uint64) {
	if d.tok {
		d.toks = append(d.toks, Token{path, cat, off, w, num, val, d.site})
	}
}

func (d *dec) take(n int) ([]byte, error) {
	if n < 0 || len(d.b)-d.off < n {
		return nil, ErrShort
	}
	r := d.b[d.off : d.off+n]
	d.off += n
	return r, nil
}

// Decode interprets b as one message of type t; returns the message (pointer to a fresh
// library struct), the number of bytes consumed and, if tok, the token table.
func (c *Codec) Decode(t *schema.Type, b []byte, tok bool) (any, int, []Token, error) {
	d := &dec{c: c, b: b, tok: tok}
	msg := c.New[t.QName]()
	err := d.typ(t, reflect.ValueOf(msg).Elem(), "")
	return msg, d.off, d.toks, err
}

func (d *dec) num(w int, le bool) (uint64, error) {
	b, err := d.take(w)
	if err != nil {
		return 0, err
	}
	return getInt(b, le), nil
}

func (d *dec) typ(t *schema.Type, v reflect.Value, path string) error {
	for i := range t.Fields {
		f := &t.Fields[i]
		fv := v.FieldByName(f.Name)
		if !fv.IsValid() {
			return fmt.Errorf("%w: %s has no field %s", ErrBind, t.QName, f.Name)
		}
		p := join(path, f.Name)
		d.site = t.QName + "." + f.Name
		switch f.Kind {
		case "bodylen", "checksum":
			w := schema.Width(f.Prefix)
			off := d.off
			x, err := d.num(w, t.LE)
			if err != nil {
				return err
			}
			d.t(p, f.Kind, off, w, true, x)
			if err := setScalar(fv, f.Prefix, x); err != nil {
				return err
			}
		case "union":
			var key any
			kv := v.FieldByName(f.Key)
			if kv.Kind() == reflect.String {
				key = kv.String()
			} else {
				key = kv.Uint()
			}
			tb := d.c.S.Table(t.Pkg, f.Table)
			tn, ok := tb.ByKey[key]
			if !ok {
				return ErrUnknownKey
			}
			bt := d.c.S.Lookup(t.Pkg, tn)
			body := d.c.New[bt.QName]()
			if err := d.typ(bt, reflect.ValueOf(body).Elem(), p); err != nil {
				return err
			}
			fv.Set(reflect.ValueOf(body))
		default:
			if err := d.field(t, f, fv, p); err != nil {
				return err
			}
		}
	}
	return nil
}

func (d *dec) field(t *schema.Type, f *schema.Field, fv reflect.Value, path string) error {
	le := t.LE
	switch f.Kind {
	case "fixstr":
		off := d.off
		b, err := d.take(f.N)
		if err != nil {
			return err
		}
		d.t(path, "text", off, f.N, false, 0)
		fv.SetString(FixRead(b, byte(f.Pad), f.Left))
	case "pstr":
		w := schema.Width(f.Prefix)
		off := d.off
		n, err := d.num(w, le)
		if err != nil {
			return err
		}
		d.t(path, "strlen", off, w, true, n)
		if n > uint64(len(d.b)-d.off) {
			return ErrShort
		}
		off = d.off
		b, _ := d.take(int(n))
		d.t(path, "text", off, int(n), false, 0)
		fv.SetString(string(b))
	case "list":
		w := schema.Width(f.Prefix)
		off := d.off
		n, err := d.num(w, le)
		if err != nil {
			return err
		}
		d.t(path, "count", off, w, true, n)
		sl := reflect.MakeSlice(fv.Type(), 0, 0)
		for i := uint64(0); i < n; i++ {
			el := reflect.New(fv.Type().Elem()).Elem()
			ep := path
			if d.tok {
				ep = fmt.Sprintf("%s[%d]", path, i)
			}
			if schema.IsScalar(f.Elem.Kind) {
				ew := schema.Width(f.Elem.Kind)
				o := d.off
				x, err := d.num(ew, le)
				if err != nil {
					return err
				}
				d.t(ep, "elem", o, ew, true, x)
				if err := setScalar(el, f.Elem.Kind, x); err != nil {
					return err
				}
			} else if err := d.field(t, f.Elem, el, ep); err != nil {
				return err
			}
			sl = reflect.Append(sl, el)
		}
		fv.Set(sl)
	case "objlist":
		w := schema.Width(f.Prefix)
		off := d.off
		n, err := d.num(w, le)
		if err != nil {
			return err
		}
		d.t(path, "count", off, w, true, n)
		et := d.c.S.Lookup(t.Pkg, f.Type)
		sl := reflect.MakeSlice(fv.Type(), 0, 0)
		for i := uint64(0); i < n; i++ {
			el := reflect.ValueOf(d.c.New[et.QName]())
			ep := path
			if d.tok {
				ep = fmt.Sprintf("%s[%d]", path, i)
			}
			if err := d.typ(et, el.Elem(), ep); err != nil {
				return err
			}
			sl = reflect.Append(sl, el)
		}
		fv.Set(sl)
	case "struct":
		st := d.c.S.Lookup(t.Pkg, f.Type)
		if f.Value {
			return d.typ(st, fv, path)
		}
		n := reflect.ValueOf(d.c.New[st.QName]())
		if err := d.typ(st, n.Elem(), path); err != nil {
			return err
		}
		fv.Set(n)
	default:
		w := schema.Width(f.Kind)
		if w == 0 {
			return fmt.Errorf("%w: kind %s", ErrBind, f.Kind)
		}
		off := d.off
		x, err := d.num(w, le)
		if err != nil {
			return err
		}
		d.t(path, "scalar", off, w, true, x)
		return setScalar(fv, f.Kind, x)
	}
	return nil
}
