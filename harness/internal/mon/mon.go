// Package mon holds what every monitor shares: the panic trap, the violation/replay
// reporter, the known-findings filter and the evidence writer.
package mon

import (
	"bufio"
	"crypto/sha1"
	"encoding/hex"
	"encoding/json"
	"fmt"
	"os"
	"path/filepath"
	"runtime/debug"
	"sort"
	"strings"
	"sync"
	"time"
)

var Root = func() string {
	if r := os.Getenv("VERIF_ROOT"); r != "" {
		return r
	}
	return "/verif"
}()

// Out is where evidence, replay files and scratch go (VERIF_OUT, default Root).  Known findings are
// always read from Root.
var Out = func() string {
	if r := os.Getenv("VERIF_OUT"); r != "" {
		return r
	}
	return Root
}()

// Panic describes a recovered panic.
type Panic struct {
	Value string
	Stack string
}

// Call runs f, converting a panic into an event.
func Call(f func() error) (err error, p *Panic) {
	defer func() {
		if r := recover(); r != nil {
			p = &Panic{Value: fmt.Sprint(r), Stack: trimStack(string(debug.Stack()))}
		}
	}()
	err = f()
	return
}

func trimStack(s string) string {
	lines := strings.Split(s, "\n")
	if len(lines) > 40 {
		lines = lines[:40]
	}
	return strings.Join(lines, "\n")
}

type known struct {
	prop, sig, text string
	hit             bool
}

// Run accumulates what one invocation of one check observed.
type Run struct {
	Prop, Tier string
	Seed       int64
	Only       string
	Verbose    bool
	Quiet      bool // count violations but do not print / write replay files (first, parallel pass)
	start      time.Time

	mu         sync.Mutex
	evals      int64
	distinct   map[uint64]struct{}
	distinctN  int64 // used instead of the set when counted by the check itself
	samples    []any
	extra      map[string]any
	counters   map[string]int64
	classes    map[string]int // violation class -> occurrences
	printed    int
	violations int
	inconcl    []string
	knowns     []*known
	rule       string
	explain    string
	exhaustive bool
	assume     []string
	relayed    map[string]bool
}

const distinctCap = 3_000_000

func NewRun(prop, tier string, seed int64) *Run {
	r := &Run{Prop: prop, Tier: tier, Seed: seed, start: time.Now(), distinct: map[uint64]struct{}{},
		extra: map[string]any{}, counters: map[string]int64{}, classes: map[string]int{}}
	r.loadKnown()
	return r
}

func (r *Run) loadKnown() {
	f, err := os.Open(filepath.Join(Root, "KNOWN_FINDINGS.txt"))
	if err != nil {
		return
	}
	defer f.Close()
	sc := bufio.NewScanner(f)
	for sc.Scan() {
		line := strings.TrimSpace(sc.Text())
		if !strings.HasPrefix(line, "known:") {
			continue // "fixed:" lines and comments suppress nothing
		}
		k := &known{}
		for _, w := range strings.Fields(line) {
			if strings.HasPrefix(w, "property=") {
				k.prop = strings.TrimPrefix(w, "property=")
			}
			if strings.HasPrefix(w, "sig=") {
				k.sig = strings.TrimPrefix(w, "sig=")
			}
		}
		if i := strings.Index(line, "sig="+k.sig); i >= 0 {
			k.text = strings.TrimSpace(line[i+len("sig="+k.sig):])
		}
		if k.prop != "" && k.sig != "" {
			r.knowns = append(r.knowns, k)
		}
	}
}

func (r *Run) Rule(s string)       { r.rule = s }
func (r *Run) Explain(s string)    { r.explain = s }
func (r *Run) Exhaustive(b bool)   { r.exhaustive = b }
func (r *Run) Assume(s ...string)  { r.assume = append(r.assume, s...) }
func (r *Run) Set(k string, v any) { r.mu.Lock(); r.extra[k] = v; r.mu.Unlock() }
func (r *Run) Evals(n int64)       { r.mu.Lock(); r.evals += n; r.mu.Unlock() }
func (r *Run) Count(k string, n int64) {
	r.mu.Lock()
	r.counters[k] += n
	r.mu.Unlock()
}
func (r *Run) Counter(k string) int64 { r.mu.Lock(); defer r.mu.Unlock(); return r.counters[k] }

// Distinct records the hash of a non-trivial case.
func (r *Run) Distinct(h uint64) {
	r.mu.Lock()
	if len(r.distinct) < distinctCap {
		r.distinct[h] = struct{}{}
	}
	r.mu.Unlock()
}

// DistinctMany merges a worker-local set.
func (r *Run) DistinctMany(hs map[uint64]struct{}) {
	r.mu.Lock()
	for h := range hs {
		if len(r.distinct) >= distinctCap {
			break
		}
		r.distinct[h] = struct{}{}
	}
	r.mu.Unlock()
}

// DistinctAdd is for checks that count distinct non-trivial cases themselves.
func (r *Run) DistinctAdd(n int64) { r.mu.Lock(); r.distinctN += n; r.mu.Unlock() }

func (r *Run) Sample(s any) {
	r.mu.Lock()
	if len(r.samples) < 8 {
		r.samples = append(r.samples, s)
	}
	r.mu.Unlock()
}

func (r *Run) NumSamples() int { r.mu.Lock(); defer r.mu.Unlock(); return len(r.samples) }

func (r *Run) Inconclusive(why string) {
	r.mu.Lock()
	r.inconcl = append(r.inconcl, why)
	r.mu.Unlock()
	if !r.Quiet {
		fmt.Printf("INCONCLUSIVE property=%s %s\n", r.Prop, why)
	}
}

// Violate reports a refuting observation.  class groups witnesses (one replay file and one
// VIOLATION line per class); sig is matched against KNOWN_FINDINGS.txt `known:` lines.
func (r *Run) Violate(class, sig string, detail map[string]any) {
	r.mu.Lock()
	defer r.mu.Unlock()
	for _, k := range r.knowns {
		if k.prop == r.Prop && k.sig == sig {
			if !k.hit {
				k.hit = true
				fmt.Printf("KNOWN-FINDING: property=%s %s %s\n", r.Prop, k.sig, k.text)
			}
			r.counters["known_finding_observations"]++
			return
		}
	}
	r.violations++
	r.classes[class]++
	if r.classes[class] > 1 || r.Quiet {
		return
	}
	if r.printed >= 40 {
		return
	}
	r.printed++
	h := sha1.Sum([]byte(r.Prop + "|" + class))
	path := filepath.Join(Out, "replays", fmt.Sprintf("%s-%s.json", r.Prop, hex.EncodeToString(h[:5])))
	rec := map[string]any{"property": r.Prop, "class": class, "sig": sig, "seed": r.Seed, "tier": r.Tier, "detail": detail}
	rerun := []string{r.Prop, "--tier", r.Tier, "--seed", fmt.Sprint(r.Seed)}
	if t, ok := detail["type"].(string); ok && t != "" {
		rerun = append(rerun, "--only", t)
	}
	rec["rerun"] = rerun
	os.MkdirAll(filepath.Dir(path), 0o755)
	b, _ := json.MarshalIndent(rec, "", " ")
	os.WriteFile(path, append(b, '\n'), 0o644)
	fmt.Printf("VIOLATION property=%s replay=%s\n", r.Prop, path)
	fmt.Printf("  class=%s\n", class)
	keys := make([]string, 0, len(detail))
	for k := range detail {
		keys = append(keys, k)
	}
	sort.Strings(keys)
	for _, k := range keys {
		s := fmt.Sprint(detail[k])
		if len(s) > 400 {
			s = s[:400] + "…"
		}
		fmt.Printf("  %s: %s\n", k, s)
	}
}

func (r *Run) Violations() int { r.mu.Lock(); defer r.mu.Unlock(); return r.violations }

// Finish writes the evidence file and returns the process exit code.
func (r *Run) Finish() int {
	r.mu.Lock()
	defer r.mu.Unlock()
	wall := time.Since(r.start).Seconds()
	dn := int64(len(r.distinct)) + r.distinctN
	cov := map[string]any{
		"evaluations":         r.evals,
		"distinct_nontrivial": dn,
		"rule":                r.rule,
		"samples":             r.samples,
		"explanation":         r.explain,
		"exhaustive":          r.exhaustive,
	}
	if len(r.distinct) >= distinctCap {
		cov["distinct_nontrivial_note"] = fmt.Sprintf("hash set capped at %d entries; the true number is at least this", distinctCap)
	}
	for k, v := range r.extra {
		cov[k] = v
	}
	if len(r.counters) > 0 {
		cov["counters"] = r.counters
	}
	if len(r.classes) > 0 {
		cov["violation_classes"] = r.classes
	}
	if len(r.inconcl) > 0 {
		cov["inconclusive"] = r.inconcl
	}
	if r.Only != "" {
		cov["restricted_to"] = r.Only
	}
	ev := map[string]any{
		"property_id": r.Prop, "tier": r.Tier, "seed": r.Seed, "level": "exploration",
		"coverage": cov, "assumptions": r.assume, "wall_s": wall, "violations": r.violations,
	}
	if r.samples == nil {
		cov["samples"] = []any{}
	}
	if r.assume == nil {
		ev["assumptions"] = []string{}
	}
	verdict, code := "held on everything observed", 0
	if r.violations > 0 {
		verdict, code = "VIOLATED", 1
	} else if len(r.inconcl) > 0 || r.evals == 0 {
		verdict, code = "inconclusive", 2
		if r.evals == 0 {
			fmt.Printf("INCONCLUSIVE property=%s no case was observed\n", r.Prop)
		}
	}
	cov["verdict"] = verdict
	if os.Getenv("VERIF_CHILD") != "" {
		// child process of another check: report on stdout, leave the evidence file to the parent
		b, _ := json.Marshal(map[string]any{"evaluations": r.evals, "distinct_nontrivial": dn, "violations": r.violations, "counters": r.counters, "extra": r.extra, "samples": r.samples})
		fmt.Printf("CHILD-SUMMARY %s\n", b)
		return code
	}
	if r.Only == "" || os.Getenv("VERIF_WRITE_EVIDENCE") == "1" {
		dir := filepath.Join(Out, "evidence")
		os.MkdirAll(dir, 0o755)
		b, err := json.MarshalIndent(ev, "", " ")
		if err != nil {
			fmt.Println("evidence marshal:", err)
			return 2
		}
		tmp := filepath.Join(dir, "."+r.Prop+".json.tmp")
		os.WriteFile(tmp, append(b, '\n'), 0o644)
		os.Rename(tmp, filepath.Join(dir, r.Prop+".json"))
	}
	fmt.Printf("%s %s seed=%d: %s — evaluations=%d distinct_nontrivial=%d violations=%d wall=%.1fs\n",
		r.Prop, r.Tier, r.Seed, verdict, r.evals, dn, r.violations, wall)
	return code
}

// Relay prints VIOLATION / KNOWN-FINDING blocks produced by child processes, once per class.
func (r *Run) Relay(blocks []string) {
	r.mu.Lock()
	defer r.mu.Unlock()
	if r.relayed == nil {
		r.relayed = map[string]bool{}
	}
	for _, b := range blocks {
		key := b
		for _, line := range strings.Split(b, "\n") {
			if strings.HasPrefix(line, "  class=") {
				key = line
			}
		}
		if strings.HasPrefix(b, "KNOWN-FINDING:") {
			key = strings.SplitN(b, "\n", 2)[0]
		}
		if r.relayed[key] {
			continue
		}
		r.relayed[key] = true
		if strings.HasPrefix(b, "VIOLATION ") {
			if r.printed >= 40 {
				continue
			}
			r.printed++
			r.classes[strings.TrimPrefix(key, "  class=")]++
		}
		fmt.Println(b)
	}
}

// AddViolations accounts for violations observed (and already written out) by child processes.
func (r *Run) AddViolations(n int) { r.mu.Lock(); r.violations += n; r.mu.Unlock() }
