// Package val holds the structural operations on library message values that
// every oracle shares: the equality "≡" of DESIGN §2.2, deep clone, hashing.
// It is reflection-only and knows nothing about the wire format.
package val

import (
	"encoding/hex"
	"fmt"
	"hash/fnv"
	"math"
	"reflect"
	"strings"
	"unsafe"
)

// F32Bits reads the exact bit pattern of a float32 reflect value.  Going through
// reflect's Float() would convert to float64 and back, which quiets signalling NaNs.
func F32Bits(v reflect.Value) uint32 {
	if v.CanAddr() {
		return *(*uint32)(unsafe.Pointer(v.UnsafeAddr()))
	}
	return math.Float32bits(float32(v.Float()))
}

// Equal implements ≡: integers by value, floats by bit pattern, strings
// byte-for-byte, nil slice ≡ empty slice, pointers by pointee (nil only equals
// nil), interfaces by dynamic type and content.  Returns "" when equal, else
// the path of the first difference.
func Equal(a, b any) string {
	return eq(reflect.ValueOf(a), reflect.ValueOf(b), "")
}

func eq(a, b reflect.Value, path string) string {
	if a.IsValid() != b.IsValid() {
		return path + ": one side invalid"
	}
	if !a.IsValid() {
		return ""
	}
	if a.Type() != b.Type() {
		return fmt.Sprintf("%s: type %s vs %s", path, a.Type(), b.Type())
	}
	switch a.Kind() {
	case reflect.Int8, reflect.Int16, reflect.Int32, reflect.Int64, reflect.Int:
		if a.Int() != b.Int() {
			return fmt.Sprintf("%s: %d vs %d", path, a.Int(), b.Int())
		}
	case reflect.Uint8, reflect.Uint16, reflect.Uint32, reflect.Uint64, reflect.Uint:
		if a.Uint() != b.Uint() {
			return fmt.Sprintf("%s: %d vs %d", path, a.Uint(), b.Uint())
		}
	case reflect.Float32:
		x, y := F32Bits(a), F32Bits(b)
		if x != y {
			return fmt.Sprintf("%s: f32 bits %08x vs %08x", path, x, y)
		}
	case reflect.Float64:
		x, y := math.Float64bits(a.Float()), math.Float64bits(b.Float())
		if x != y {
			return fmt.Sprintf("%s: f64 bits %016x vs %016x", path, x, y)
		}
	case reflect.String:
		if a.String() != b.String() {
			return fmt.Sprintf("%s: %q vs %q", path, clip(a.String()), clip(b.String()))
		}
	case reflect.Bool:
		if a.Bool() != b.Bool() {
			return path + ": bool"
		}
	case reflect.Slice:
		if a.Len() != b.Len() {
			return fmt.Sprintf("%s: len %d vs %d", path, a.Len(), b.Len())
		}
		for i := 0; i < a.Len(); i++ {
			if d := eq(a.Index(i), b.Index(i), fmt.Sprintf("%s[%d]", path, i)); d != "" {
				return d
			}
		}
	case reflect.Pointer:
		if a.IsNil() != b.IsNil() {
			return fmt.Sprintf("%s: nil %v vs %v", path, a.IsNil(), b.IsNil())
		}
		if !a.IsNil() {
			return eq(a.Elem(), b.Elem(), path)
		}
	case reflect.Interface:
		if a.IsNil() != b.IsNil() {
			return fmt.Sprintf("%s: nil-interface %v vs %v", path, a.IsNil(), b.IsNil())
		}
		if !a.IsNil() {
			return eq(a.Elem(), b.Elem(), path)
		}
	case reflect.Struct:
		for i := 0; i < a.NumField(); i++ {
			if d := eq(a.Field(i), b.Field(i), path+"."+a.Type().Field(i).Name); d != "" {
				return d
			}
		}
	default:
		return fmt.Sprintf("%s: unsupported kind %s", path, a.Kind())
	}
	return ""
}

func clip(s string) string {
	if len(s) > 48 {
		return s[:48] + "…"
	}
	return s
}

// Clone deep-copies a message value (pointer to struct, or anything reachable).
func Clone(a any) any {
	if a == nil {
		return nil
	}
	return clone(reflect.ValueOf(a)).Interface()
}

func clone(v reflect.Value) reflect.Value {
	switch v.Kind() {
	case reflect.Pointer:
		if v.IsNil() {
			return v
		}
		n := reflect.New(v.Type().Elem())
		n.Elem().Set(clone(v.Elem()))
		return n
	case reflect.Interface:
		if v.IsNil() {
			return v
		}
		n := reflect.New(v.Type()).Elem()
		n.Set(clone(v.Elem()))
		return n
	case reflect.Slice:
		if v.IsNil() {
			return v
		}
		n := reflect.MakeSlice(v.Type(), v.Len(), v.Len())
		for i := 0; i < v.Len(); i++ {
			n.Index(i).Set(clone(v.Index(i)))
		}
		return n
	case reflect.Struct:
		n := reflect.New(v.Type()).Elem()
		for i := 0; i < v.NumField(); i++ {
			n.Field(i).Set(clone(v.Field(i)))
		}
		return n
	case reflect.String:
		// force a fresh backing array so aliasing checks are meaningful
		n := reflect.New(v.Type()).Elem()
		n.SetString(strings.Clone(v.String()))
		return n
	}
	return v
}

// Hash gives a 64-bit structural hash consistent with Equal (nil slice == empty).
func Hash(a any) uint64 {
	h := fnv.New64a()
	hash(reflect.ValueOf(a), func(b []byte) { h.Write(b) })
	return h.Sum64()
}

func hash(v reflect.Value, w func([]byte)) {
	if !v.IsValid() {
		w([]byte{0xEE})
		return
	}
	var u [9]byte
	put := func(tag byte, x uint64) {
		u[0] = tag
		for i := 0; i < 8; i++ {
			u[1+i] = byte(x >> (8 * i))
		}
		w(u[:])
	}
	switch v.Kind() {
	case reflect.Int8, reflect.Int16, reflect.Int32, reflect.Int64, reflect.Int:
		put(1, uint64(v.Int()))
	case reflect.Uint8, reflect.Uint16, reflect.Uint32, reflect.Uint64, reflect.Uint:
		put(2, v.Uint())
	case reflect.Float32:
		put(3, uint64(F32Bits(v)))
	case reflect.Float64:
		put(4, math.Float64bits(v.Float()))
	case reflect.String:
		put(5, uint64(v.Len()))
		w([]byte(v.String()))
	case reflect.Slice:
		put(6, uint64(v.Len()))
		for i := 0; i < v.Len(); i++ {
			hash(v.Index(i), w)
		}
	case reflect.Pointer, reflect.Interface:
		if v.IsNil() {
			put(7, 0)
		} else {
			if v.Kind() == reflect.Interface {
				w([]byte(v.Elem().Type().String()))
			}
			put(7, 1)
			hash(v.Elem(), w)
		}
	case reflect.Struct:
		put(8, uint64(v.NumField()))
		for i := 0; i < v.NumField(); i++ {
			hash(v.Field(i), w)
		}
	case reflect.Bool:
		if v.Bool() {
			put(9, 1)
		} else {
			put(9, 0)
		}
	}
}

// Summary renders a compact human-readable form for evidence samples.
func Summary(a any, max int) string {
	var sb strings.Builder
	summ(reflect.ValueOf(a), &sb, max)
	s := sb.String()
	if len(s) > max {
		s = s[:max] + "…"
	}
	return s
}

func summ(v reflect.Value, sb *strings.Builder, max int) {
	if sb.Len() > max {
		return
	}
	if !v.IsValid() {
		sb.WriteString("nil")
		return
	}
	switch v.Kind() {
	case reflect.Pointer, reflect.Interface:
		if v.IsNil() {
			sb.WriteString("nil")
			return
		}
		if v.Kind() == reflect.Interface {
			sb.WriteString(v.Elem().Type().String())
		}
		summ(v.Elem(), sb, max)
	case reflect.Struct:
		sb.WriteString("{")
		for i := 0; i < v.NumField(); i++ {
			if i > 0 {
				sb.WriteString(" ")
			}
			sb.WriteString(v.Type().Field(i).Name + ":")
			summ(v.Field(i), sb, max)
		}
		sb.WriteString("}")
	case reflect.Slice:
		fmt.Fprintf(sb, "[%d]", v.Len())
		if v.Len() > 0 {
			sb.WriteString("(")
			summ(v.Index(0), sb, max)
			sb.WriteString(",…)")
		}
	case reflect.String:
		fmt.Fprintf(sb, "%q", clip(v.String()))
	case reflect.Float32:
		fmt.Fprintf(sb, "f32:%08x", F32Bits(v))
	case reflect.Float64:
		fmt.Fprintf(sb, "f64:%016x", math.Float64bits(v.Float()))
	default:
		fmt.Fprintf(sb, "%v", v.Interface())
	}
}

// Hex renders at most max bytes.
func Hex(b []byte, max int) string {
	if len(b) <= max {
		return hex.EncodeToString(b)
	}
	return hex.EncodeToString(b[:max]) + fmt.Sprintf("…(+%d bytes)", len(b)-max)
}

// IsZero reports whether a message equals the zero value of its type under ≡.
func IsZero(a any) bool {
	v := reflect.ValueOf(a)
	if v.Kind() == reflect.Pointer {
		if v.IsNil() {
			return true
		}
		z := reflect.New(v.Type().Elem())
		return Equal(a, z.Interface()) == ""
	}
	return false
}
