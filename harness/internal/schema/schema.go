// Package schema loads the pinned wire schema (frozen data, see PROVENANCE.md).
// Nothing here is derived from /repo at run time.
package schema

import (
	"embed"
	"encoding/json"
	"fmt"
	"sort"
)

//go:embed data/*.json
var data embed.FS

type Field struct {
	Name   string `json:"name"`
	Kind   string `json:"kind"`
	N      int    `json:"n"`
	Pad    int    `json:"pad"`
	Left   bool   `json:"left"`
	Prefix string `json:"prefix"`
	Elem   *Field `json:"elem"`
	Type   string `json:"type"`
	Key    string `json:"key"`
	Table  string `json:"table"`
	Fill   bool   `json:"fill"`
	Opt    bool   `json:"opt"`
	Alg    string `json:"alg"`
	Value  bool   `json:"value"`
}

type Type struct {
	Name    string  `json:"name"`
	Fields  []Field `json:"fields"`
	Hand    bool    `json:"handwritten"`
	EndianS string  `json:"endian"`
	NoCodec bool    `json:"nocodec"`

	Mod   *Module `json:"-"`
	Pkg   string  `json:"-"` // binding package short name: sse, szse, bjse, risk, sample
	QName string  `json:"-"` // Pkg + "." + Name
	LE    bool    `json:"-"`
}

type Entry struct {
	Key  any    `json:"key"`
	Type string `json:"type"`
}

type Table struct {
	Name    string  `json:"name"`
	KeyKind string  `json:"keykind"`
	Owner   string  `json:"owner"`
	Entries []Entry `json:"entries"`

	Mod   *Module        `json:"-"`
	QName string         `json:"-"`
	ByKey map[any]string `json:"-"` // uint64 or string -> type name
}

type Module struct {
	Name    string   `json:"module"`
	Dir     string   `json:"dir"`
	GoPkg   string   `json:"gopkg"`
	Endian  string   `json:"endian"`
	Version string   `json:"version"`
	Types   []*Type  `json:"types"`
	Tables  []*Table `json:"tables"`
	Pkg     string   `json:"-"`
}

type Schema struct {
	Modules []*Module
	Types   map[string]*Type  // by QName
	Tables  map[string]*Table // by QName (pkg.TableName)
	Order   []*Type           // deterministic order
}

var order = []string{"sse", "szse", "bjse", "risk", "sample", "handwritten"}

func Load() *Schema {
	s := &Schema{Types: map[string]*Type{}, Tables: map[string]*Table{}}
	for _, n := range order {
		b, err := data.ReadFile("data/" + n + ".json")
		if err != nil {
			panic(err)
		}
		m := &Module{}
		if err := json.Unmarshal(b, m); err != nil {
			panic(fmt.Sprintf("schema %s: %v", n, err))
		}
		m.Pkg = m.Name
		if m.Name == "handwritten" {
			m.Pkg = "sample"
		}
		for _, t := range m.Types {
			t.Mod = m
			t.Pkg = m.Pkg
			t.QName = m.Pkg + "." + t.Name
			t.LE = m.Endian == "little"
			s.Types[t.QName] = t
			s.Order = append(s.Order, t)
		}
		for _, t := range m.Tables {
			t.Mod = m
			t.QName = m.Pkg + "." + t.Name
			t.ByKey = map[any]string{}
			for i, e := range t.Entries {
				switch k := e.Key.(type) {
				case float64:
					t.Entries[i].Key = uint64(k)
					t.ByKey[uint64(k)] = e.Type
				case string:
					t.ByKey[k] = e.Type
				}
			}
			s.Tables[t.QName] = t
		}
		s.Modules = append(s.Modules, m)
	}
	return s
}

// Lookup resolves a type name used inside module-package pkg.
func (s *Schema) Lookup(pkg, name string) *Type { return s.Types[pkg+"."+name] }

func (s *Schema) Table(pkg, name string) *Table { return s.Tables[pkg+"."+name] }

// TableNames returns the table QNames sorted.
func (s *Schema) TableNames() []string {
	var r []string
	for k := range s.Tables {
		r = append(r, k)
	}
	sort.Strings(r)
	return r
}

// Width of a scalar kind in bytes (0 if not scalar).
func Width(kind string) int {
	switch kind {
	case "i8", "u8":
		return 1
	case "i16", "u16":
		return 2
	case "i32", "u32", "f32":
		return 4
	case "i64", "u64", "f64":
		return 8
	}
	return 0
}

func IsScalar(kind string) bool { return Width(kind) != 0 }

// MaxPrefix is the largest count representable in a prefix kind.
func MaxPrefix(kind string) uint64 {
	switch kind {
	case "u8":
		return 0xFF
	case "u16":
		return 0xFFFF
	case "u32":
		return 0xFFFFFFFF
	}
	return ^uint64(0)
}
