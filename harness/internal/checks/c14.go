package checks

import (
	"bytes"
	"fmt"
	"sync"

	"github.com/xinchentechnote/fin-proto-go/codec"

	"verif/internal/gen"
	"verif/internal/mon"
	"verif/internal/ref"
	"verif/internal/val"
)

func init() { Registry["C14"] = c14 }

type sumAlg struct {
	name      string
	calc      func(*bytes.Buffer) (int64, error) // via the registered service
	ref       func([]byte) int64
	byteRange bool
}

func c14algs() []sumAlg {
	get := func(name string) any {
		s, _ := codec.Get(name)
		return s
	}
	return []sumAlg{
		{"CRC16", func(b *bytes.Buffer) (int64, error) {
			s, ok := get("CRC16").(codec.ChecksumService[*bytes.Buffer, uint16])
			if !ok {
				return 0, fmt.Errorf("service CRC16 not registered with result type uint16")
			}
			return int64(s.Calc(b)), nil
		}, func(b []byte) int64 { return int64(ref.CRC16Modbus(b)) }, false},
		{"CRC32", func(b *bytes.Buffer) (int64, error) {
			s, ok := get("CRC32").(codec.ChecksumService[*bytes.Buffer, uint32])
			if !ok {
				return 0, fmt.Errorf("service CRC32 not registered with result type uint32")
			}
			return int64(s.Calc(b)), nil
		}, func(b []byte) int64 { return int64(ref.CRC32(b)) }, false},
		{"SSE_BIN", func(b *bytes.Buffer) (int64, error) {
			s, ok := get("SSE_BIN").(codec.ChecksumService[*bytes.Buffer, uint32])
			if !ok {
				return 0, fmt.Errorf("service SSE_BIN not registered with result type uint32")
			}
			return int64(s.Calc(b)), nil
		}, func(b []byte) int64 { return int64(ref.SumMod256(b)) }, true},
		{"SZSE_BIN", func(b *bytes.Buffer) (int64, error) {
			s, ok := get("SZSE_BIN").(codec.ChecksumService[*bytes.Buffer, int32])
			if !ok {
				return 0, fmt.Errorf("service SZSE_BIN not registered with result type int32")
			}
			return int64(s.Calc(b)), nil
		}, func(b []byte) int64 { return int64(ref.SumMod256(b)) }, true},
	}
}

// calcAll runs the four registered services over data (handed over in a private buffer).
func calcAll(algs []sumAlg, data []byte) (out [4]int64, err error) {
	for i := range algs {
		out[i], err = algs[i].calc(bytes.NewBuffer(data))
		if err != nil {
			return
		}
	}
	return
}

func refAll(algs []sumAlg, data []byte) (out [4]int64) {
	for i := range algs {
		out[i] = algs[i].ref(data)
	}
	return
}

func c14(e *Env) {
	r := e.R
	r.Rule("four registered services (CRC16, CRC32, SSE_BIN, SZSE_BIN) × all byte strings of length <= 2 (quick; <= 3 thorough: 16.8 M) × random strings of 0..64 KiB over high-bit-heavy alphabets × long inputs: 8 421 504, 8 421 505 and 16 843 010 bytes of 0xFF (where a signed-32, end-reduced or unsigned-32 accumulator first goes wrong), thorough also 32 MiB random and 64 MiB of 0xFF; buffers are given with a non-zero read offset and unrelated unread prefix removed. distinct_nontrivial = distinct non-empty inputs × algorithms")
	r.Explain("Oracle: own table-driven CRC-16/MODBUS (the library's is bit-wise), own bit-wise reflected CRC-32 (the library uses hash/crc32), byte sums in a uint64 reduced mod 256 — all self-tested on published check values; SSE/SZSE results must lie in 0..255; Calc must leave buf.Len(), the unread bytes, the consumed prefix and the 24 sentinel bytes placed in the spare capacity right behind the data unchanged; a second call on the same buffer gives the same result.")
	algs := c14algs()
	var evals, distinct int64
	var mu sync.Mutex
	judge := func(a *sumAlg, data []byte, label string) {
		// present the data behind an already-consumed prefix so that a Calc that looks at the
		// backing array or consumes the buffer is exposed
		const pre = "consumed-prefix:"
		// backing array = consumed prefix | data | 24 sentinel bytes in the spare capacity (a received frame is
		// usually verified as a window of a larger receive buffer: what follows it must survive Calc)
		back := make([]byte, len(pre)+len(data)+24)
		copy(back, pre)
		copy(back[len(pre):], data)
		for k := len(pre) + len(data); k < len(back); k++ {
			back[k] = 0xA5
		}
		buf := bytes.NewBuffer(back[:len(pre)+len(data)])
		buf.Next(len(pre))
		before := buf.Len()
		var got, again int64
		err, p := mon.Call(func() error {
			var e1, e2 error
			got, e1 = a.calc(buf)
			if e1 != nil {
				return e1
			}
			again, e2 = a.calc(buf)
			return e2
		})
		want := a.ref(data)
		mu.Lock()
		evals++
		if len(data) > 0 {
			distinct++
		}
		mu.Unlock()
		det := map[string]any{"algorithm": a.name, "input_len": len(data), "input": val.Hex(data, 32), "label": label, "result": got, "reference": want}
		switch {
		case p != nil:
			det["panic"] = p.Value
			r.Violate("C14/panic/"+a.name, "C14/panic/"+a.name, det)
		case err != nil:
			det["error"] = err.Error()
			r.Violate("C14/service-missing/"+a.name, "C14/service-missing/"+a.name, det)
		case got != want:
			cls := "C14/wrong-result/" + a.name
			if len(data) >= 1<<20 {
				cls += "/long-input"
			}
			r.Violate(cls, cls, det)
		case a.byteRange && (got < 0 || got > 255):
			r.Violate("C14/out-of-range/"+a.name, "C14/out-of-range/"+a.name, det)
		case again != got:
			det["second_call"] = again
			r.Violate("C14/not-repeatable/"+a.name, "C14/not-repeatable/"+a.name, det)
		case buf.Len() != before || !bytes.Equal(buf.Bytes(), data):
			det["len_before"], det["len_after"] = before, buf.Len()
			r.Violate("C14/buffer-consumed-or-modified/"+a.name, "C14/buffer-consumed-or-modified/"+a.name, det)
		case !bytes.Equal(back[:len(pre)], []byte(pre)) || !bytes.Equal(back[len(pre)+len(data):], bytes.Repeat([]byte{0xA5}, 24)):
			det["bytes_behind_the_data_after_Calc"] = val.Hex(back[len(pre)+len(data):], 24)
			r.Violate("C14/memory-around-the-buffer-modified/"+a.name, "C14/memory-around-the-buffer-modified/"+a.name, det)
		}
	}
	// ---- exhaustive short strings
	maxLen := e.N(2, 3)
	if isAbsentChild(e) {
		maxLen = 1
	}
	type job struct{ first int }
	e.Par(256, func(b0 int) {
		for ai := range algs {
			a := &algs[ai]
			if b0 == 0 {
				judge(a, nil, "empty")
			}
			judge(a, []byte{byte(b0)}, "exhaustive")
			for b1 := 0; b1 < 256; b1++ {
				judge(a, []byte{byte(b0), byte(b1)}, "exhaustive")
				if maxLen >= 3 {
					for b2 := 0; b2 < 256; b2++ {
						judge(a, []byte{byte(b0), byte(b1), byte(b2)}, "exhaustive")
					}
				}
			}
		}
	})
	// ---- random
	nr := e.N(5000, 1000000)
	e.Par(16, func(w int) {
		rng := gen.NewRng(e.Seed, "C14", "random", w)
		for i := 0; i < nr/16; i++ {
			n := rng.Intn(1 << uint(rng.Intn(17)))
			data := rng.Bytes(n)
			switch rng.Intn(4) {
			case 0:
				for k := range data {
					data[k] |= 0x80
				}
			case 1:
				for k := range data {
					data[k] = 0xFF
				}
			}
			for ai := range algs {
				judge(&algs[ai], data, "random")
			}
		}
	})
	// ---- the same memory checksummed again after it was patched in place (result memos keyed on address/length)
	for _, n := range []int{1, 100, 4096, 32768, 65536, 262144, 1 << 20} {
		data := gen.NewRng(e.Seed, "C14", "inplace", n).Bytes(n)
		buf := bytes.NewBuffer(data)
		for step := 0; step < 4; step++ {
			for ai := range algs {
				a := &algs[ai]
				got, err := a.calc(buf)
				want := a.ref(data)
				mu.Lock()
				evals++
				mu.Unlock()
				if err != nil || got != want {
					r.Violate("C14/wrong-result-after-in-place-change/"+a.name, "C14/wrong-result-after-in-place-change/"+a.name, map[string]any{"algorithm": a.name, "input_len": n, "step": step, "result": got, "reference": want, "note": "same buffer, same address and length as the previous call, bytes patched in between"})
				}
			}
			data[(step*7919)%n] ^= 0x5A
			data[n-1] ^= 0xFF
		}
	}
	// ---- long inputs
	longs := []struct {
		n    int
		fill string
	}{{8421504, "ff"}, {8421505, "ff"}, {16843010, "ff"}}
	if e.Thorough {
		longs = append(longs, struct {
			n    int
			fill string
		}{32 << 20, "random"}, struct {
			n    int
			fill string
		}{64 << 20, "ff"}, struct {
			n    int
			fill string
		}{16843010 + 255, "ff"})
	}
	e.Par(len(longs), func(i int) {
		l := longs[i]
		var data []byte
		if l.fill == "ff" {
			data = bytes.Repeat([]byte{0xFF}, l.n)
		} else {
			data = gen.NewRng(e.Seed, "C14", "long", i).Bytes(l.n)
		}
		for ai := range algs {
			judge(&algs[ai], data, fmt.Sprintf("long:%d×%s", l.n, l.fill))
		}
	})
	if isAbsentChild(e) {
		// scenario: a service is removed, frames that use it are encoded, then the name is looked up again:
		// nothing may have appeared under the name that does not compute the published definition
		s := e.S
		for _, a := range algs {
			codec.Remove(a.name)
			for _, t := range s.Order {
				if fi := frameOf(t); fi != nil && fi.alg == a.name {
					g := &gen.Gen{S: e.S, C: e.C, R: gen.NewRng(e.Seed, "C14-absent", t.QName), O: &gen.Opts{}}
					for k := 0; k < 3; k++ {
						LibEncode(g.Value(t), new(bytes.Buffer))
					}
				}
			}
			if _, ok := codec.Get(a.name); ok {
				for _, in := range [][]byte{[]byte("123456789"), {0xFF, 0xFF, 0x01}, bytes.Repeat([]byte{0xA7}, 1000)} {
					judge(&a, in, "after Remove("+a.name+") and frame encodes something is registered under the name again")
				}
			}
		}
	}
	r.Evals(evals)
	r.DistinctAdd(distinct)
	r.Exhaustive(false)
	if !isAbsentChild(e) {
		runAbsentChild(e)
	}
	r.Set("exhaustive_subspace", fmt.Sprintf("all byte strings of length <= %d for each of the 4 services", maxLen))
	r.Set("long_inputs", longs)
	r.Sample(map[string]any{"algorithm": "SZSE_BIN", "input": "8421505 × ff", "reference": ref.SumMod256(bytes.Repeat([]byte{0xFF}, 8421505))})
	r.Sample(map[string]any{"algorithm": "CRC16", "input": "313233343536373839", "reference": ref.CRC16Modbus([]byte("123456789"))})
}
