package checks

import (
	"bytes"
	"encoding/json"
	"fmt"
	"os"
	"os/exec"
	"reflect"
	"runtime"
	"sort"
	"strings"
	"sync"
	"sync/atomic"
	"time"

	"github.com/xinchentechnote/fin-proto-go/codec"

	"verif/internal/bind"
	"verif/internal/gen"
	"verif/internal/schema"
	"verif/internal/val"
)

func init() { Registry["C20"] = c20 }

type pcase struct {
	t     *schema.Type
	v     any      // value (read-only once built)
	bytes []byte   // sequential encoding
	want  any      // sequential decode result
	sums  [4]int64 // the four checksum services over bytes, computed sequentially
}

type pevent struct {
	c      int32
	op     int8 // 0 encode, 1 decode
	t0, t1 int64
}

func buildParallelCases(e *Env, perType int, useRef bool) []pcase {
	var cs []pcase
	algs := c14algs()
	for _, t := range e.Types() {
		n := perType
		for _, f := range t.Fields {
			if f.Kind == "union" && !useRef {
				// frames and extended messages are where the shared state (checksum registry, factory tables) is
				// consulted: they get many more cases, so that several of the same kind are in flight at once
				n = perType * 12
				if f.Key == "MsgType" {
					n = perType * 40
				}
			}
		}
		opts := e.caseOpts(t, n, 0, false, false)
		for ci, o := range opts {
			if ci >= n {
				break // only the plain cases: the 70 000-element specials of other checks would dominate the time
			}
			g := &gen.Gen{S: e.S, C: e.C, R: gen.NewRng(e.Seed, "C20", t.QName, ci), O: o}
			v := g.Value(t)
			if ci == n-1 && !useRef {
				v = e.C.New[t.QName]() // the zero value: every nested part and body absent (encoders materialise them)
			}
			var w []byte
			var want any
			if useRef {
				rb, err := e.C.Encode(t, val.Clone(v))
				if err != nil {
					continue
				}
				w = rb
				m, _, _, err := e.C.Decode(t, rb, false)
				if err != nil {
					continue
				}
				want = m
			} else {
				lb, err, p := EncodeFresh(val.Clone(v))
				if err != nil || p != nil {
					continue
				}
				w = append([]byte(nil), lb...)
				d := e.C.New[t.QName]()
				if err, p := LibDecode(d, bytes.NewBuffer(append([]byte(nil), w...))); err != nil || p != nil {
					continue
				}
				want = d
			}
			pc := pcase{t: t, v: v, bytes: w, want: want}
			if useRef {
				pc.sums = refAll(algs, w)
			} else if s, err := calcAll(algs, w); err == nil {
				pc.sums = s
			}
			cs = append(cs, pc)
		}
	}
	return cs
}

// parFailers are values whose Encode must fail; they are built once, before the goroutines start, and only cloned afterwards.
var parFailers []any

func buildParFailers(e *Env) {
	parFailers = nil
	for _, t := range e.S.Order {
		for _, f := range t.Fields {
			if f.Kind != "union" {
				continue
			}
			g := &gen.Gen{S: e.S, C: e.C, R: gen.NewRng(e.Seed, "C20", "failer", t.QName), O: &gen.Opts{}}
			v := g.Value(t)
			reflect.ValueOf(v).Elem().FieldByName(f.Name).Set(reflect.ValueOf(&failingBody{N: 5}))
			parFailers = append(parFailers, v)
			if f.Fill {
				// absent body with an unregistered key: the encoder has to refuse
				u := g.Value(t)
				setKeyField(u, f.Key, g.UnregKeyFor(e.S.Table(t.Pkg, f.Table)))
				fv := reflect.ValueOf(u).Elem().FieldByName(f.Name)
				fv.Set(reflect.Zero(fv.Type()))
				parFailers = append(parFailers, u)
			}
		}
		seenWhat := map[string]bool{}
		for _, s := range lenSites(t) {
			// one refusal of each kind per type: too many elements, a text too long, one list element too long
			if s.max <= 0xFFFF && !seenWhat[s.what] && (t.Pkg == "sample" || t.Pkg == "sse" || t.Pkg == "bjse") {
				seenWhat[s.what] = true
				g := &gen.Gen{S: e.S, C: e.C, R: gen.NewRng(e.Seed, "C20", "failer-long", t.QName, s.what), O: &gen.Opts{Lens: []int{1}, StrLens: []int{2}}}
				v := g.Value(t)
				setLen(e, t, v, s, s.max+1, g)
				parFailers = append(parFailers, v)
			}
		}
	}
	// frames carrying a body that itself refuses (an extended message with an unregistered id and no extension)
	for _, t := range e.S.Order {
		for _, f := range t.Fields {
			if f.Kind != "union" || f.Key != "MsgType" {
				continue
			}
			tb := e.S.Table(t.Pkg, f.Table)
			for _, en := range tb.Entries {
				bt := e.S.Lookup(t.Pkg, en.Type)
				for _, bf := range bt.Fields {
					if bf.Kind == "union" && bf.Fill {
						g := &gen.Gen{S: e.S, C: e.C, R: gen.NewRng(e.Seed, "C20", "failer-frame", t.QName, bt.QName), O: &gen.Opts{ForceKey: map[string]any{tb.QName: en.Key}}}
						v := g.Value(t)
						body := reflect.ValueOf(v).Elem().FieldByName(f.Name).Elem().Interface()
						setKeyField(body, bf.Key, g.UnregKeyFor(e.S.Table(bt.Pkg, bf.Table)))
						bfv := reflect.ValueOf(body).Elem().FieldByName(bf.Name)
						bfv.Set(reflect.Zero(bfv.Type()))
						parFailers = append(parFailers, v)
					}
				}
			}
		}
	}
}

type pmismatch struct {
	goroutine, caseIdx int
	op, detail         string
}

// runParallel lets G goroutines each perform ops operations on private objects and buffers.
// Inside the measured region a goroutine touches only its own memory plus read-only shared case data.
func runParallel(e *Env, cs []pcase, G, ops int, label string) (evs [][]pevent, bad []pmismatch) {
	evs = make([][]pevent, G)
	bads := make([][]pmismatch, G)
	caseIdx := map[reflect.Type][]int{} // read-only once the goroutines run
	for i := range cs {
		ty := reflect.TypeOf(cs[i].v)
		caseIdx[ty] = append(caseIdx[ty], i)
	}
	var ready int32
	var wg sync.WaitGroup
	start := time.Now()
	for gi := 0; gi < G; gi++ {
		wg.Add(1)
		go func(gi int) {
			defer wg.Done()
			rng := gen.NewRng(e.Seed, "C20", label, gi)
			algs := c14algs()
			byType := caseIdx
			sendBuf := new(bytes.Buffer)
			my := make([]pevent, 0, 2*ops)
			var mybad []pmismatch
			atomic.AddInt32(&ready, 1)
			for spins := 0; atomic.LoadInt32(&ready) < int32(G); spins++ {
				if spins > 1000 {
					runtime.Gosched()
				}
			}
			for k := 0; k < ops; k++ {
				ci := rng.Intn(len(cs))
				if k%16 >= 5 && k%16 <= 8 && len(parFailers) > 0 {
					// an encode that fails (over-long list, unregistered key with absent body, a body that refuses),
					// into a buffer that is thrown away: error paths return pooled objects too.  All goroutines pick
					// the SAME failing type for the same k, and follow it with three ordinary encodes of that type,
					// so that several goroutines are in that type's encoder right after its error path ran.
					f := parFailers[(k/16)%len(parFailers)]
					if k%16 == 5 {
						LibEncode(val.Clone(f), new(bytes.Buffer))
					}
					if idx := byType[reflect.TypeOf(f)]; len(idx) > 0 {
						ci = idx[rng.Intn(len(idx))]
					}
				}
				c := &cs[ci]
				// encode a private clone into this goroutine's private send buffer, which usually still holds
				// the frames queued before (it is emptied every 64 KiB)
				m := val.Clone(c.v)
				if sendBuf.Len() > 64<<10 {
					sendBuf.Reset()
				}
				pre := sendBuf.Len()
				t0 := int64(time.Since(start))
				err, p := LibEncode(m, sendBuf)
				t1 := int64(time.Since(start))
				my = append(my, pevent{int32(ci), 0, t0, t1})
				var app []byte
				if sendBuf.Len() >= pre {
					app = sendBuf.Bytes()[pre:]
				}
				if err != nil || p != nil || !bytes.Equal(app, c.bytes) {
					if len(mybad) < 5 {
						mybad = append(mybad, pmismatch{gi, ci, "encode", fmt.Sprintf("err=%v panic=%v queued_before=%d got=%s want=%s", err, p, pre, val.Hex(app, 64), val.Hex(c.bytes, 64))})
					}
					sendBuf.Reset()
					continue
				}
				// decode private bytes into a private object (every other time one handed out by the generated constructor)
				d := e.NewVia(c.t.QName, k)
				if k%8 == 3 {
					// ... or the object that was just encoded, reused as the receiver for ANOTHER message of its type
					// (whatever the encoder attached to it - materialised parts, filled-in bodies - is decoded into)
					if idx := byType[reflect.TypeOf(c.v)]; len(idx) > 1 {
						ci = idx[rng.Intn(len(idx))]
						c = &cs[ci]
					}
					d = m
				}
				in := bytes.NewBuffer(append([]byte(nil), c.bytes...))
				t0 = int64(time.Since(start))
				err, p = LibDecode(d, in)
				t1 = int64(time.Since(start))
				my = append(my, pevent{int32(ci), 1, t0, t1})
				if err != nil || p != nil || in.Len() != 0 {
					if len(mybad) < 5 {
						mybad = append(mybad, pmismatch{gi, ci, "decode", fmt.Sprintf("err=%v panic=%v left=%d", err, p, in.Len())})
					}
					continue
				}
				if diff := val.Equal(c.want, d); diff != "" && len(mybad) < 5 {
					mybad = append(mybad, pmismatch{gi, ci, "decode", diff})
				}
				// the four checksum services, called directly on a private buffer (CRC16 is used by no
				// generated codec, so only this call reaches it concurrently)
				if k%4 == 0 && !servicesAbsent {
					priv := append([]byte(nil), c.bytes...)
					t0 = int64(time.Since(start))
					sums, serr := calcAll(algs, priv)
					t1 = int64(time.Since(start))
					my = append(my, pevent{int32(ci), 2, t0, t1})
					if (serr != nil || sums != c.sums) && len(mybad) < 5 {
						mybad = append(mybad, pmismatch{gi, ci, "checksum-services", fmt.Sprintf("err=%v got=%v want(sequential)=%v", serr, sums, c.sums)})
					}
				}
			}
			evs[gi] = my
			bads[gi] = mybad
		}(gi)
	}
	wg.Wait()
	for _, b := range bads {
		bad = append(bad, b...)
	}
	return
}

// concurrencyStats is computed offline from the private logs.
func concurrencyStats(cs []pcase, evs [][]pevent) map[string]any {
	type pt struct {
		t     int64
		start bool
		g     int
		typ   string
	}
	var pts []pt
	total := 0
	for g, l := range evs {
		for _, ev := range l {
			pts = append(pts, pt{ev.t0, true, g, cs[ev.c].t.QName}, pt{ev.t1, false, g, cs[ev.c].t.QName})
			total++
		}
	}
	sort.Slice(pts, func(i, j int) bool {
		if pts[i].t != pts[j].t {
			return pts[i].t < pts[j].t
		}
		return !pts[i].start && pts[j].start
	})
	active := map[int]string{}
	hist := map[int]int{}
	pairs := map[string]struct{}{}
	var overlapPairs int64
	maxC := 0
	for _, p := range pts {
		if p.start {
			for _, ot := range active {
				overlapPairs++
				a, b := p.typ, ot
				if a > b {
					a, b = b, a
				}
				if len(pairs) < 200000 {
					pairs[a+"|"+b] = struct{}{}
				}
			}
			active[p.g] = p.typ
			hist[len(active)]++
			if len(active) > maxC {
				maxC = len(active)
			}
		} else {
			delete(active, p.g)
		}
	}
	hs := map[string]int{}
	for k, v := range hist {
		hs[fmt.Sprintf("%02d", k)] = v
	}
	return map[string]any{"library_calls": total, "overlapping_call_pairs": overlapPairs, "max_concurrent_calls": maxC, "distinct_type_pairs_overlapping": len(pairs), "calls_started_at_concurrency_level": hs}
}

func tableSnapshot(e *Env) string {
	var sb strings.Builder
	for _, q := range e.S.TableNames() {
		tb := e.S.Tables[q]
		for _, en := range tb.Entries {
			m, err := bind.Factories[q](en.Key)
			fmt.Fprintf(&sb, "%s/%v=%T,%v;", q, en.Key, m, err != nil)
		}
	}
	return sb.String()
}

// c20FailureBursts is phase 4: for every value whose encoding must fail (a body that refuses, an unregistered
// key with nothing to fill in, an over-long list), all goroutines at once perform that failing encode into a
// buffer they throw away and then a burst of ordinary encodes of the same type, compared with the sequential
// bytes.  Error paths are where pooled scratch objects get returned twice or unreset; the burst right behind the
// failure, on every P at the same time, is when two goroutines end up sharing one.
func c20FailureBursts(e *Env, cs []pcase, mode string) {
	r := e.R
	byType := map[reflect.Type][]int{}
	for i := range cs {
		ty := reflect.TypeOf(cs[i].v)
		byType[ty] = append(byType[ty], i)
	}
	const G = 32
	burst := e.N(15, 200)
	if mode == "race-workload-child" {
		burst = e.N(6, 60)
	}
	var bursts, calls int64
	for fi, f := range parFailers {
		idx := byType[reflect.TypeOf(f)]
		if len(idx) == 0 {
			continue
		}
		if mode == "race-workload-child" && !e.Thorough && fi%3 != int(e.Seed%3+3)%3 {
			continue // the race build is 5-10x slower: a third of the failing values per run (which third depends on the seed)
		}
		bursts++
		bad := make([]string, G)
		var ready int32
		var wg sync.WaitGroup
		for gi := 0; gi < G; gi++ {
			wg.Add(1)
			go func(gi int) {
				defer wg.Done()
				fail := val.Clone(f)
				ms := make([]any, burst)
				for k := range ms {
					ms[k] = val.Clone(cs[idx[(gi+k)%len(idx)]].v)
				}
				out := new(bytes.Buffer)
				atomic.AddInt32(&ready, 1)
				for spins := 0; atomic.LoadInt32(&ready) < G; spins++ {
					if spins > 1000 {
						runtime.Gosched()
					}
				}
				LibEncode(fail, new(bytes.Buffer))
				for k := range ms {
					c := &cs[idx[(gi+k)%len(idx)]]
					out.Reset()
					err, p := LibEncode(ms[k], out)
					if err != nil || p != nil || !bytes.Equal(out.Bytes(), c.bytes) {
						bad[gi] = fmt.Sprintf("encode %d after the failed one: err=%v panic=%v got=%s want=%s", k, err, p, val.Hex(out.Bytes(), 48), val.Hex(c.bytes, 48))
						return
					}
				}
			}(gi)
		}
		wg.Wait()
		calls += int64(G * (burst + 1))
		for gi, b := range bad {
			if b != "" {
				r.Violate("C20/parallel-result-differs-from-sequential/encode-after-failed-encode/"+fmt.Sprintf("%T", f), "C20/parallel-result-differs-from-sequential", map[string]any{"type": fmt.Sprintf("%T", f), "goroutine": gi, "detail": b, "build": mode, "phase": "32 goroutines: one failing encode each, then a burst of ordinary encodes of the same type"})
				break
			}
		}
	}
	r.Evals(calls)
	r.Set("phase4_failure_bursts", map[string]any{"failing_values": bursts, "goroutines": G, "encodes_after_each_failure": burst})
}

// c20TableHammer is phase 3: one discriminator table at a time, 16 goroutines look DIFFERENT registered keys of
// that table up at the same moment, in a tight loop (the factory directly, and through the decoder of the owning
// message on a tiny image), so that whatever a look-up path shares between calls - a "last hit" memo, a scratch
// object, a lazily built index - is hit by several keys within nanoseconds.  Expected answers are computed
// sequentially beforehand; inside the loop a goroutine touches only its own memory.
func c20TableHammer(e *Env, mode string) {
	r := e.R
	iters := e.N(2500, 40000)
	if mode == "race-workload-child" {
		iters = e.N(200, 6000)
	}
	const G = 16
	var tables, calls int64
	for _, t := range e.Types() {
		for fi := range t.Fields {
			f := &t.Fields[fi]
			if f.Kind != "union" {
				continue
			}
			tb := e.S.Table(t.Pkg, f.Table)
			factory := bind.Factories[tb.QName]
			type kc struct {
				key      any
				img      []byte
				want     any
				wantType reflect.Type
			}
			var ks []kc
			for _, en := range tb.Entries {
				g := &gen.Gen{S: e.S, C: e.C, R: gen.NewRng(e.Seed, "C20-hammer", t.QName, fmt.Sprint(en.Key)), O: &gen.Opts{Lens: []int{1}, StrLens: []int{2}, NoNilBody: true, ForceKey: map[string]any{tb.QName: en.Key}}}
				v := g.Value(t)
				w, err, p := EncodeFresh(val.Clone(v))
				if err != nil || p != nil {
					continue
				}
				img := append([]byte(nil), w...)
				d := e.C.New[t.QName]()
				if err, p := LibDecode(d, bytes.NewBuffer(append([]byte(nil), img...))); err != nil || p != nil {
					continue
				}
				m, ferr := factory(en.Key)
				if ferr != nil || m == nil {
					continue
				}
				ks = append(ks, kc{en.Key, img, d, reflect.TypeOf(m)})
			}
			if len(ks) < 2 {
				continue
			}
			tables++
			bad := make([]string, G)
			var ready int32
			var wg sync.WaitGroup
			for gi := 0; gi < G; gi++ {
				wg.Add(1)
				go func(gi int) {
					defer wg.Done()
					atomic.AddInt32(&ready, 1)
					for spins := 0; atomic.LoadInt32(&ready) < G; spins++ {
						if spins > 1000 {
							runtime.Gosched()
						}
					}
					for i := 0; i < iters; i++ {
						k := &ks[(gi*5+i)%len(ks)]
						if i%2 == 0 {
							m, err := factory(k.key)
							if err != nil || reflect.TypeOf(m) != k.wantType {
								bad[gi] = fmt.Sprintf("factory(%v) answered %T, %v; pinned %v", k.key, m, err, k.wantType)
								return
							}
							continue
						}
						d := e.C.New[t.QName]()
						in := bytes.NewBuffer(append(make([]byte, 0, len(k.img)), k.img...))
						err, p := LibDecode(d, in)
						if err != nil || p != nil || in.Len() != 0 {
							bad[gi] = fmt.Sprintf("decode of key %v: err=%v panic=%v left=%d", k.key, err, p, in.Len())
							return
						}
						if diff := val.Equal(k.want, d); diff != "" {
							bad[gi] = fmt.Sprintf("decode of key %v: %s", k.key, diff)
							return
						}
					}
				}(gi)
			}
			wg.Wait()
			calls += int64(G * iters)
			for gi, b := range bad {
				if b != "" {
					r.Violate("C20/parallel-result-differs-from-sequential/table-lookups/"+tb.QName, "C20/parallel-result-differs-from-sequential", map[string]any{"table": tb.QName, "owner": t.QName, "goroutine": gi, "detail": b, "build": mode, "phase": "16 goroutines looking up different registered keys of one table at once"})
					break
				}
			}
		}
	}
	r.Evals(calls)
	r.Set("phase3_table_hammer", map[string]any{"tables": tables, "goroutines": G, "lookups_and_decodes_each": iters})
}

func c20Child(e *Env, mode string) {
	r := e.R
	switch mode {
	case "workload-child", "race-workload-child", "absent-workload-child":
		if mode == "absent-workload-child" {
			servicesAbsent = true
			codec.Clear() // every frame encode now misses in the checksum registry: that path must be as free of shared writes as the hit path
		}
		buildParFailers(e)
		G, ops, per := 64, e.N(700, 10000), 3
		if mode == "absent-workload-child" {
			ops = e.N(200, 3000)
		}
		if mode == "race-workload-child" {
			ops = e.N(150, 2500)
		}
		cs := buildParallelCases(e, per, false)
		before := tableSnapshot(e)
		evs, bad := runParallel(e, cs, G, ops, mode)
		// phase 2: 160 goroutines decoding/encoding messages with 20 000-element lists, so that far more than 64
		// calls are inside a list reader at the same instant (process-wide counters, depth guards, pools)
		var long []pcase
		algs := c14algs()
		for _, t := range e.Types() {
			has := false
			for _, f := range t.Fields {
				if f.Kind == "objlist" {
					has = true
				}
			}
			if !has || len(long) >= 8 {
				continue
			}
			g := &gen.Gen{S: e.S, C: e.C, R: gen.NewRng(e.Seed, "C20-long", t.QName), O: &gen.Opts{Lens: []int{20000}, StrLens: []int{2}}}
			v := g.Value(t)
			if lb, err, p := EncodeFresh(val.Clone(v)); err == nil && p == nil {
				w := append([]byte(nil), lb...)
				d := e.C.New[t.QName]()
				if err, p := LibDecode(d, bytes.NewBuffer(append([]byte(nil), w...))); err == nil && p == nil {
					pc := pcase{t: t, v: v, bytes: w, want: d}
					pc.sums, _ = calcAll(algs, w)
					long = append(long, pc)
				}
			}
		}
		if len(long) > 0 {
			n2 := 6
			if mode == "race-workload-child" {
				n2 = 1
			}
			old := runtime.GOMAXPROCS(256) // more runnable threads than cores: the OS preempts calls in the middle of a list
			G2 := 200
			if mode == "race-workload-child" && !e.Thorough {
				G2 = 96
			}
			bad2 := make([]string, G2)
			var ready int32
			var wg sync.WaitGroup
			for gi := 0; gi < G2; gi++ {
				wg.Add(1)
				go func(gi int) {
					defer wg.Done()
					c := &long[gi%len(long)]
					imgs := make([][]byte, n2)
					for k := range imgs {
						imgs[k] = append([]byte(nil), c.bytes...)
					}
					atomic.AddInt32(&ready, 1)
					for spins := 0; atomic.LoadInt32(&ready) < int32(G2); spins++ {
						if spins > 1000 {
							runtime.Gosched()
						}
					}
					for k := 0; k < n2; k++ {
						d := e.C.New[c.t.QName]()
						in := bytes.NewBuffer(imgs[k])
						err, p := LibDecode(d, in)
						if err != nil || p != nil || in.Len() != 0 {
							bad2[gi] = fmt.Sprintf("%s: err=%v panic=%v left=%d", c.t.QName, err, p, in.Len())
							return
						}
						if k == 0 {
							if diff := val.Equal(c.want, d); diff != "" {
								bad2[gi] = c.t.QName + ": " + diff
								return
							}
						}
					}
				}(gi)
			}
			wg.Wait()
			runtime.GOMAXPROCS(old)
			r.Evals(int64(G2 * n2))
			r.Set("phase2_long_list_decodes", map[string]any{"goroutines": G2, "decodes_each": n2, "GOMAXPROCS": 256, "list_elements": 20000, "types": len(long)})
			for gi, b := range bad2 {
				if b != "" {
					r.Violate("C20/parallel-result-differs-from-sequential/decode/long-lists", "C20/parallel-result-differs-from-sequential", map[string]any{"goroutine": gi, "op": "decode", "detail": b, "build": mode, "phase": "200 goroutines decoding 20000-element lists under GOMAXPROCS 256"})
					break
				}
			}
		}
		if mode != "absent-workload-child" {
			c20TableHammer(e, mode)
			c20FailureBursts(e, cs, mode)
		}
		after := tableSnapshot(e)
		st := concurrencyStats(cs, evs)
		r.Evals(int64(st["library_calls"].(int)))
		r.DistinctAdd(int64(st["distinct_type_pairs_overlapping"].(int)))
		r.Set("stats", st)
		for _, b := range bad {
			r.Violate("C20/parallel-result-differs-from-sequential/"+b.op+"/"+cs[b.caseIdx].t.QName, "C20/parallel-result-differs-from-sequential", map[string]any{"type": cs[b.caseIdx].t.QName, "goroutine": b.goroutine, "op": b.op, "detail": b.detail, "build": mode})
		}
		if before != after {
			r.Violate("C20/discriminator-tables-changed", "C20/discriminator-tables-changed", map[string]any{"build": mode})
		}
		r.Sample(map[string]any{"build": mode, "goroutines": G, "operations_per_goroutine": ops, "cases": len(cs), "stats": st})
	case "firstuse-child":
		// the very first touch of every table and checksum service happens concurrently
		cs := buildParallelCases(e, 1, true) // expected values from the reference codec: no library call yet
		var frames []pcase
		for _, c := range cs {
			if len(c.t.Fields) > 0 {
				for _, f := range c.t.Fields {
					if f.Kind == "union" {
						frames = append(frames, c)
						break
					}
				}
			}
		}
		evs, bad := runParallel(e, frames, 16, len(frames)*2, "firstuse")
		st := concurrencyStats(frames, evs)
		r.Evals(int64(st["library_calls"].(int)))
		r.DistinctAdd(int64(st["distinct_type_pairs_overlapping"].(int)))
		r.Set("stats", st)
		for _, b := range bad {
			// The expectation came from the reference codec (no library call was allowed before the
			// concurrent first use).  A difference that the library also shows when the same case is
			// now repeated alone is not a concurrency effect and is not C20's to report.
			c := &frames[b.caseIdx]
			seqSame := false
			if b.op == "encode" {
				w, err, p := EncodeFresh(val.Clone(c.v))
				seqSame = err != nil || p != nil || !bytes.Equal(w, c.bytes)
			} else if b.op == "checksum-services" {
				s, err := calcAll(c14algs(), append([]byte(nil), c.bytes...))
				seqSame = err != nil || s != c.sums
			} else {
				d := e.C.New[c.t.QName]()
				err, p := LibDecode(d, bytes.NewBuffer(append([]byte(nil), c.bytes...)))
				seqSame = err != nil || p != nil || val.Equal(c.want, d) != ""
			}
			if seqSame {
				r.Count("differences_from_reference_that_are_also_present_sequentially(not C20)", 1)
				continue
			}
			r.Violate("C20/first-use-result-differs/"+b.op+"/"+c.t.QName, "C20/first-use-result-differs", map[string]any{"type": c.t.QName, "op": b.op, "detail": b.detail})
		}
	}
}

func c20(e *Env) {
	r := e.R
	if len(e.Args) > 0 && strings.HasSuffix(e.Args[0], "-child") {
		c20Child(e, e.Args[0])
		return
	}
	r.Rule("expected bytes/messages for 3 canonical values of each of the 170 types are computed first, sequentially; then 64 goroutines (busy-wait barrier, no channel or shared atomic inside the measured region) each perform 1000 (thorough 10000) encode+decode operations on randomly chosen cases, on private clones, private send buffers that still hold the frames queued before, and private receivers — frames and extended messages included, so the checksum registry and all 18 discriminator maps are read concurrently — plus, every fourth operation, a direct Calc of all four registered checksum services on a private buffer, and every sixteenth an encode that must fail (a body that refuses, an unregistered key with absent body, an over-long list) into a discarded buffer; a third workload child runs with the checksum registry emptied first; then 200 goroutines under GOMAXPROCS=256 decoding messages with 20 000-element object lists (far more than 64 calls inside a list reader at once); then, one discriminator table at a time, 16 goroutines looking different registered keys of that table up at the same moment in a tight loop (factory and owning decoder); then, for every value whose encoding must fail, 32 goroutines at once perform the failing encode followed by a burst of ordinary encodes of the same type; the same workload with 250/2500 operations per goroutine in a -race build; first-use trials: 4 (thorough 32) fresh processes (alternating plain / -race builds) in which the very first touch of every table and checksum service happens concurrently from 16 goroutines, judged against the reference codec. distinct_nontrivial = distinct (type,type) pairs whose calls were observed overlapping in real time, summed over the runs")
	r.Explain("Oracle: every parallel result equals the sequential one (bytes byte-for-byte, messages ≡); zero race-detector reports (counted from the log) and no runtime 'concurrent map' abort; the registered key→type answers of all 18 factories are identical before and after. Evidence numbers (overlapping call pairs, concurrency histogram, distinct overlapping type pairs) are computed offline from per-goroutine logs.")
	r.Assume("the exported Registry…Factory mutators are not called concurrently: the property says tables are only read after start-up", "the race detector judges only the accesses the workload performed")
	type run struct{ bin, mode, label string }
	runs := []run{{os.Getenv("VERIF_BIN"), "workload-child", "plain_build_workload"}, {os.Getenv("VERIF_BIN_RACE"), "race-workload-child", "race_build_workload"},
		{os.Getenv("VERIF_BIN"), "absent-workload-child", "plain_build_workload_with_checksum_services_unregistered"}}
	if e.Thorough {
		// the same workloads again with fewer processors: different interleavings (more preemption inside calls)
		runs = append(runs, run{os.Getenv("VERIF_BIN_RACE"), "race-workload-child", "race_build_workload_GOMAXPROCS_2"}, run{os.Getenv("VERIF_BIN"), "workload-child", "plain_build_workload_GOMAXPROCS_4"})
	}
	nbig := len(runs)
	nfirst := e.N(4, 32)
	for i := 0; i < nfirst; i++ {
		b, l := os.Getenv("VERIF_BIN"), "plain"
		if i%2 == 1 {
			b, l = os.Getenv("VERIF_BIN_RACE"), "race"
		}
		runs = append(runs, run{b, "firstuse-child", fmt.Sprintf("first_use_trial_%02d_%s", i, l)})
	}
	var mu sync.Mutex
	totalRaces := 0
	// the two big workloads run one after the other with the machine to themselves; the first-use
	// trials then run four at a time
	sem := make(chan struct{}, 4)
	var wg sync.WaitGroup
	var watchdogFired atomic.Bool
	for ri, rn := range runs {
		if ri == nbig {
			wg.Wait()
		}
		wg.Add(1)
		one := func(ri int, rn run) {
			defer wg.Done()
			sem <- struct{}{}
			defer func() { <-sem }()
			if watchdogFired.Load() {
				return // reported by watchedOutput: the other builds would only wait as long again
			}
			if rn.bin == "" {
				r.Inconclusive("no binary for " + rn.label)
				return
			}
			logBase := fmt.Sprintf("%s/.work/C20-%s", monRoot(), rn.label)
			os.MkdirAll(logBase, 0o755)
			for _, f := range globLogs(logBase) {
				os.Remove(f)
			}
			cmd := exec.Command(rn.bin, "C20", "--tier", e.Tier, "--seed", fmt.Sprint(e.Seed+int64(ri)*1000), rn.mode)
			cmd.Env = append(os.Environ(), "VERIF_CHILD=1", "GORACE=halt_on_error=0 log_path="+logBase+"/race")
			if i := strings.Index(rn.label, "GOMAXPROCS_"); i >= 0 {
				cmd.Env = append(cmd.Env, "GOMAXPROCS="+rn.label[i+len("GOMAXPROCS_"):])
			}
			t0 := time.Now()
			out, err := watchedOutput(r, cmd, e.Thorough, rn.label)
			r.Set("seconds_"+rn.label, int(time.Since(t0).Seconds()))
			if strings.Contains(string(out), "SIGQUIT: quit") {
				watchdogFired.Store(true)
			}
			races := 0
			first := ""
			for _, f := range globLogs(logBase) {
				b, _ := os.ReadFile(f)
				races += strings.Count(string(b), "WARNING: DATA RACE")
				if first == "" && races > 0 {
					first = string(b[:min(len(b), 3000)])
				}
			}
			var sum childSummary
			var relayed []string
			lines := strings.Split(string(out), "\n")
			for i := 0; i < len(lines); i++ {
				if strings.HasPrefix(lines[i], "CHILD-SUMMARY ") {
					json.Unmarshal([]byte(strings.TrimPrefix(lines[i], "CHILD-SUMMARY ")), &sum)
				}
				if strings.HasPrefix(lines[i], "VIOLATION ") {
					blk := lines[i]
					for i+1 < len(lines) && strings.HasPrefix(lines[i+1], "  ") {
						i++
						blk += "\n" + lines[i]
					}
					relayed = append(relayed, blk)
				}
			}
			mu.Lock()
			defer mu.Unlock()
			r.Relay(relayed)
			r.AddViolations(sum.Violations)
			r.Evals(sum.Evaluations)
			r.DistinctAdd(sum.Distinct)
			if ri < nbig {
				for _, sm := range sum.Samples {
					r.Sample(sm)
				}
			}
			info := map[string]any{"library_calls": sum.Evaluations, "race_reports": races}
			if sum.Extra != nil {
				info["stats"] = sum.Extra["stats"]
			}
			r.Set(rn.label, info)
			totalRaces += races
			if races > 0 {
				r.Violate("C20/data-race", "C20/data-race", map[string]any{"run": rn.label, "reports": races, "first_report": first})
			}
			if strings.Contains(string(out), "fatal error: concurrent map") {
				r.Violate("C20/concurrent-map-access-abort", "C20/concurrent-map-access-abort", map[string]any{"run": rn.label, "output": string(out[:min(len(out), 2500)])})
			} else if sum.Evaluations == 0 && races == 0 {
				if strings.Contains(string(out), "fatal error") || strings.Contains(string(out), "panic:") {
					r.Violate("C20/workload-process-died", "C20/workload-process-died", map[string]any{"run": rn.label, "output": string(out[:min(len(out), 2500)])})
				} else {
					r.Inconclusive(rn.label + " did not complete: " + fmt.Sprint(err) + " " + tailStr(string(out), 300))
				}
			}
		}
		if ri < nbig {
			one(ri, rn)
		} else {
			go one(ri, rn)
		}
	}
	wg.Wait()
	r.Set("race_reports_total", totalRaces)
	_ = reflect.TypeOf
}
