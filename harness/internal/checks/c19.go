package checks

import (
	"bytes"
	"encoding/json"
	"fmt"
	"os"
	"os/exec"
	"runtime"
	"sort"
	"strings"
	"sync"
	"sync/atomic"
	"time"

	"github.com/anishathalye/porcupine"
	"github.com/xinchentechnote/fin-proto-go/codec"
	sample "github.com/xinchentechnote/fin-proto-go/sample-bin/messages"
	sse "github.com/xinchentechnote/fin-proto-go/sse-bin/messages"
	szse "github.com/xinchentechnote/fin-proto-go/szse-bin/messages"

	"verif/internal/gen"
	"verif/internal/mon"
)

func init() { Registry["C19"] = c19 }

// svc is a harness checksum service: Algorithm() is the registry key, id identifies the registration.
type svc struct {
	name string
	id   int64
}

func (s *svc) Algorithm() string { return s.name }

// svcI32 / svcU32 are harness services registered under the names the generated frame encoders look up
// ("SZSE_BIN": int32 result, "CRC32": uint32 result).  Their Calc returns the registration id, so the
// trailer a frame encoder writes reveals WHICH registration its internal look-up saw.
type svcI32 struct{ svc }

func (s *svcI32) Calc(*bytes.Buffer) int32 { return int32(s.id) }

type svcU32 struct{ svc }

func (s *svcU32) Calc(*bytes.Buffer) uint32 { return uint32(s.id) }

const encSentinel = 0x7FFFFFF1 // caller-supplied checksum: survives Encode iff the look-up found nothing

const (
	opRegistry = iota
	opGet
	opRemove
	opClear
	opEncode      // a frame encode whose internal look-up of the name is observed through the trailer it writes
	opRemoveOther // Remove of a background name (no effect on the two modelled names)
)

var opNames = []string{"Registry", "Get", "Remove", "Clear", "EncodeLookup", "Remove(background name)"}

type regIn struct {
	Op  int
	Key int   // 0 or 1
	ID  int64 // Registry: id being registered
}

type regOut struct {
	OK bool  // Registry: success; Get: found
	ID int64 // Get: id of the service found
}

type regEvent struct {
	in        regIn
	out       regOut
	call, ret int64
	client    int
}

var c19Keys = []string{"SZSE_BIN", "CRC32", "SSE_BIN"} // the three names generated frame encoders look up

var regModel = porcupine.Model{
	Init: func() any { return [3]int64{} },
	Step: func(st, in, out any) (bool, any) {
		s := st.([3]int64)
		i, o := in.(regIn), out.(regOut)
		switch i.Op {
		case opRegistry:
			if s[i.Key] == 0 {
				if !o.OK {
					return false, s
				}
				s[i.Key] = i.ID
				return true, s
			}
			return !o.OK, s
		case opGet, opEncode:
			if s[i.Key] == 0 {
				return !o.OK, s
			}
			return o.OK && o.ID == s[i.Key], s
		case opRemove:
			s[i.Key] = 0
			return true, s
		case opClear:
			return true, [3]int64{}
		case opRemoveOther:
			return true, s
		}
		return false, s
	},
	Equal: func(a, b any) bool { return a.([3]int64) == b.([3]int64) },
	DescribeOperation: func(in, out any) string {
		i, o := in.(regIn), out.(regOut)
		switch i.Op {
		case opRegistry:
			return fmt.Sprintf("Registry(%s,#%d)->%v", c19Keys[i.Key], i.ID, o.OK)
		case opGet:
			return fmt.Sprintf("Get(%s)->(#%d,%v)", c19Keys[i.Key], o.ID, o.OK)
		case opRemove:
			return fmt.Sprintf("Remove(%s)", c19Keys[i.Key])
		case opEncode:
			return fmt.Sprintf("EncodeLookup(%s)->(#%d,%v)", c19Keys[i.Key], o.ID, o.OK)
		case opRemoveOther:
			return "Remove(last background name)"
		}
		return "Clear()"
	},
}

// doOp performs one registry call at the client boundary.
func doOp(in regIn) regOut {
	switch in.Op {
	case opRegistry:
		if in.Key == 0 {
			return regOut{OK: codec.Registry(&svcI32{svc{name: c19Keys[0], id: in.ID}})}
		}
		return regOut{OK: codec.Registry(&svcU32{svc{name: c19Keys[in.Key], id: in.ID}})}
	case opGet:
		s, ok := codec.Get(c19Keys[in.Key])
		if !ok {
			return regOut{}
		}
		var h *svc
		switch x := s.(type) {
		case *svcI32:
			h = &x.svc
		case *svcU32:
			h = &x.svc
		}
		if h != nil {
			if h.name != c19Keys[in.Key] {
				return regOut{OK: true, ID: -h.id} // a service under the wrong name: never explainable
			}
			return regOut{OK: true, ID: h.id}
		}
		return regOut{OK: true, ID: -1}
	case opEncode:
		var sum int64
		err, p := mon.Call(func() error {
			if in.Key == 0 {
				f := &szse.SzseBinary{MsgType: 3, Body: &szse.Heartbeat{}, Checksum: encSentinel}
				e := f.Encode(new(bytes.Buffer))
				sum = int64(f.Checksum)
				return e
			}
			if in.Key == 2 {
				f := &sse.SseBinary{MsgType: 33, Body: &sse.Heartbeat{}, Checksum: encSentinel}
				e := f.Encode(new(bytes.Buffer))
				sum = int64(f.Checksum)
				return e
			}
			f := &sample.RootPacket{MsgType: 4, Payload: &sample.EmptyPacket{}, Checksum: encSentinel}
			e := f.Encode(new(bytes.Buffer))
			sum = int64(f.Checksum)
			return e
		})
		if p != nil || err != nil {
			return regOut{OK: true, ID: -2} // a frame encode that panics or fails while the registry changes: never explainable
		}
		if sum == encSentinel {
			return regOut{}
		}
		return regOut{OK: true, ID: sum}
	case opRemoveOther:
		codec.Remove("VERIF_BACKGROUND_LAST")
	case opRemove:
		codec.Remove(c19Keys[in.Key])
	case opClear:
		codec.Clear()
	}
	return regOut{}
}

// recordHistory runs one short concurrent history and returns its events.  Inside the measured
// region every goroutine touches only its own slice and the monotonic clock; the spin barrier is
// crossed before the region starts.
func recordHistory(rng *gen.Rng, hist int, shape int) []regEvent {
	codec.Clear()
	clients, opsPer := 6, 5
	switch shape {
	case 1:
		clients, opsPer = 12, 2
	case 2:
		clients, opsPer = 3, 10 // few clients, long per-client sequences
	case 3:
		clients, opsPer = 10, 3 // many clients, very short sequences
	case 4:
		clients, opsPer = 6, 4 // "drain" (see below)
	}
	plans := make([][]regIn, clients)
	for c := range plans {
		for k := 0; k < opsPer; k++ {
			id := int64(hist%1000)*1_000_000 + int64(c+1)*1000 + int64(k+1)
			var in regIn
			if shape == 1 {
				// all register the same fresh key at once, then look it up
				if k == 0 {
					in = regIn{Op: opRegistry, Key: 0, ID: id}
				} else if c%2 == 0 {
					in = regIn{Op: opGet, Key: 0}
				} else {
					in = regIn{Op: opEncode, Key: 0}
				}
			} else {
				x := rng.Intn(100)
				key := rng.Intn(len(c19Keys))
				switch {
				case x < 38:
					in = regIn{Op: opRegistry, Key: key, ID: id}
				case x < 53:
					in = regIn{Op: opGet, Key: key}
				case x < 70:
					in = regIn{Op: opEncode, Key: key}
				case x < 95:
					in = regIn{Op: opRemove, Key: key}
				default:
					in = regIn{Op: opClear}
				}
			}
			plans[c] = append(plans[c], in)
		}
	}
	if shape == 4 {
		// "drain": the registry held 70 names and was emptied one Remove at a time down to a single background
		// name; its Remove is the first operation of client 0, concurrent with registrations of the modelled names
		for k := 0; k < 69; k++ {
			codec.Registry(&svc{name: fmt.Sprintf("VERIF_BACKGROUND_%02d", k), id: int64(k + 1)})
		}
		codec.Registry(&svc{name: "VERIF_BACKGROUND_LAST", id: 99})
		for k := 0; k < 69; k++ {
			codec.Remove(fmt.Sprintf("VERIF_BACKGROUND_%02d", k))
		}
		plans[0][0] = regIn{Op: opRemoveOther}
		for c := 1; c < clients; c++ {
			plans[c][0] = regIn{Op: opRegistry, Key: c % len(c19Keys), ID: int64(hist%1000)*1_000_000 + int64(c+1)*1000 + 1}
		}
	} else if hist%2 == 1 {
		// a populated registry: copy-on-write or entry-by-entry implementations have a much wider window then
		for k := 0; k < 64; k++ {
			codec.Registry(&svc{name: fmt.Sprintf("VERIF_BACKGROUND_%02d", k), id: int64(k + 1)})
		}
	}
	logs := make([][]regEvent, clients)
	jit := make([][]int, clients)
	for c := range jit {
		for k := 0; k < opsPer; k++ {
			jit[c] = append(jit[c], rng.Intn(1+rng.Intn(400)))
		}
	}
	sink := make([]int, clients*16)
	var ready int32
	var wg sync.WaitGroup
	start := time.Now()
	for c := 0; c < clients; c++ {
		wg.Add(1)
		go func(c int) {
			defer wg.Done()
			my := make([]regEvent, 0, opsPer)
			atomic.AddInt32(&ready, 1)
			// spin barrier (before the measured region): a pure busy-wait, so that every client is
			// on a CPU at the moment of release and the calls genuinely overlap
			for spins := 0; atomic.LoadInt32(&ready) < int32(clients); spins++ {
				if spins > 2_000_000 {
					runtime.Gosched()
				}
			}
			for k, in := range plans[c] {
				// private jitter between calls (never inside one): diversifies the interleavings
				for d := jit[c][k]; d > 0; d-- {
					sink[c*16]++
				}
				t0 := int64(time.Since(start))
				out := doOp(in)
				t1 := int64(time.Since(start))
				my = append(my, regEvent{in: in, out: out, call: t0, ret: t1, client: c})
			}
			logs[c] = my
		}(c)
	}
	wg.Wait()
	var evs []regEvent
	for _, l := range logs {
		evs = append(evs, l...)
	}
	// quiescent reads: one sequential Get per key after everybody has returned
	for k := 0; k < len(c19Keys); k++ {
		for _, op := range []int{opGet, opEncode} {
			t0 := int64(time.Since(start))
			out := doOp(regIn{Op: op, Key: k})
			t1 := int64(time.Since(start))
			evs = append(evs, regEvent{in: regIn{Op: op, Key: k}, out: out, call: t0, ret: t1, client: clients})
		}
	}
	return evs
}

func toOps(evs []regEvent) []porcupine.Operation {
	ops := make([]porcupine.Operation, len(evs))
	for i, e := range evs {
		ops[i] = porcupine.Operation{ClientId: e.client, Input: e.in, Call: e.call, Output: e.out, Return: e.ret}
	}
	return ops
}

func overlaps(evs []regEvent) (pairs int, sameKeyRegistry int) {
	for i := range evs {
		for j := i + 1; j < len(evs); j++ {
			a, b := evs[i], evs[j]
			if a.client == b.client {
				continue
			}
			if a.call < b.ret && b.call < a.ret {
				pairs++
				if a.in.Op == opRegistry && b.in.Op == opRegistry && a.in.Key == b.in.Key {
					sameKeyRegistry++
				}
			}
		}
	}
	return
}

func describeHistory(evs []regEvent) []string {
	s := append([]regEvent(nil), evs...)
	sort.Slice(s, func(i, j int) bool { return s[i].call < s[j].call })
	var out []string
	for _, e := range s {
		out = append(out, fmt.Sprintf("c%d [%d..%d] %s", e.client, e.call, e.ret, regModel.DescribeOperation(e.in, e.out)))
	}
	return out
}

type c19Stats struct {
	Histories, OK, Illegal, Unknown int
	OverlapPairs, SameKeyRegistry   int
	HistoriesWithOverlap            int
	SingleWinner                    int
}

func c19Workload(e *Env, n int, label string) c19Stats {
	r := e.R
	var st c19Stats
	type rec struct {
		evs   []regEvent
		shape int
		idx   int
	}
	recs := make([]rec, 0, n)
	rng := gen.NewRng(e.Seed, "C19", label)
	for h := 0; h < n; h++ {
		shape := 0
		switch {
		case h%5 == 4:
			shape = 1
		case h%10 == 3:
			shape = 2
		case h%10 == 7:
			shape = 3
		case h%10 == 1:
			shape = 4
		}
		recs = append(recs, rec{recordHistory(rng, h, shape), shape, h})
	}
	var mu sync.Mutex
	e.Par(len(recs), func(i int) {
		rc := recs[i]
		res, info := porcupine.CheckOperationsVerbose(regModel, toOps(rc.evs), 10*time.Second)
		if res == porcupine.Unknown {
			// a loaded machine is not a verdict: give the checker a much longer second chance
			res, info = porcupine.CheckOperationsVerbose(regModel, toOps(rc.evs), 3*time.Minute)
		}
		p, skr := overlaps(rc.evs)
		mu.Lock()
		defer mu.Unlock()
		st.Histories++
		st.OverlapPairs += p
		st.SameKeyRegistry += skr
		if p > 0 {
			st.HistoriesWithOverlap++
		}
		switch res {
		case porcupine.Ok:
			st.OK++
		case porcupine.Unknown:
			st.Unknown++
		case porcupine.Illegal:
			st.Illegal++
			_ = info
			r.Violate("C19/history-not-linearizable/"+label, "C19/history-not-linearizable", map[string]any{"history_index": rc.idx, "shape": rc.shape, "build": label, "history": describeHistory(rc.evs)})
		}
		if rc.shape == 1 {
			wins := 0
			var winner int64
			for _, ev := range rc.evs {
				if ev.in.Op == opRegistry && ev.out.OK {
					wins++
					winner = ev.in.ID
				}
			}
			bad := wins != 1
			for _, ev := range rc.evs {
				// every look-up that started after the winning registration returned must see the winner
				if (ev.in.Op == opGet || ev.in.Op == opEncode) && ev.in.Key == 0 && ev.client == 12 && (!ev.out.OK || ev.out.ID != winner) {
					bad = true
				}
			}
			if bad {
				r.Violate("C19/not-exactly-one-winner/"+label, "C19/not-exactly-one-winner", map[string]any{"history_index": rc.idx, "winners": wins, "history": describeHistory(rc.evs)})
			} else {
				st.SingleWinner++
			}
		}
		if rc.idx == 0 && label == "plain" {
			r.Sample(map[string]any{"history": describeHistory(rc.evs), "verdict": fmt.Sprint(res), "overlapping_call_pairs": p})
		}
	})
	return st
}

// firstCallScenario performs a short SEQUENTIAL history whose first operation is the first registry
// call of the whole process, on the names of the built-in services, and judges it against the
// sequential model started from "the four built-ins are registered" (what start-up promises).
func firstCallScenario(k int) (steps []string, bad string) {
	type op struct {
		kind, name string
		flavor     int // Registry: 0 = a service with Algorithm() only, 1 = Calc returns uint32, 2 = Calc returns int32
	}
	scen := [][]op{
		{{"Clear", "", 0}, {"Get", "CRC32", 0}, {"Get", "SSE_BIN", 0}, {"Registry", "CRC32", 0}, {"Get", "CRC32", 0}},
		{{"Remove", "CRC32", 0}, {"Registry", "CRC32", 0}, {"Get", "CRC32", 0}, {"Get", "CRC16", 0}},
		{{"Get", "SZSE_BIN", 0}, {"Registry", "SZSE_BIN", 0}, {"Remove", "SZSE_BIN", 0}, {"Registry", "SZSE_BIN", 0}, {"Get", "SZSE_BIN", 0}},
		{{"Registry", "CRC16", 0}, {"Get", "CRC16", 0}, {"Clear", "", 0}, {"Get", "CRC16", 0}},
		{{"Remove", "SSE_BIN", 0}, {"Get", "SSE_BIN", 0}, {"Get", "CRC32", 0}, {"Clear", "", 0}, {"Get", "CRC32", 0}},
		// library work between registry calls: frame encodes and decodes look services up, and whatever they
		// find (nothing, a built-in, an application service of the expected or of ANOTHER result type - the
		// registry accepts any value with Algorithm()) they must leave the registry as it is
		{{"LibOps", "", 0}, {"RegistryNameless", "", 0}, {"Get", "CRC16", 0}, {"Get", "CRC32", 0}, {"Get", "SSE_BIN", 0}, {"Get", "SZSE_BIN", 0}, {"Get", "", 0}},
		{{"Remove", "SZSE_BIN", 0}, {"Registry", "SZSE_BIN", 1}, {"LibOps", "", 0}, {"Get", "SZSE_BIN", 0}, {"Registry", "SZSE_BIN", 2}, {"Get", "SZSE_BIN", 0}, {"Get", "CRC32", 0}},
		{{"Clear", "", 0}, {"Registry", "SSE_BIN", 2}, {"Registry", "CRC32", 2}, {"Registry", "SZSE_BIN", 0}, {"LibOps", "", 0}, {"Get", "SSE_BIN", 0}, {"Get", "CRC32", 0}, {"Get", "SZSE_BIN", 0}, {"Get", "CRC16", 0}},
		{{"Remove", "SSE_BIN", 0}, {"Remove", "CRC32", 0}, {"LibOps", "", 0}, {"Get", "SSE_BIN", 0}, {"Get", "CRC32", 0}, {"Clear", "", 0}, {"LibOps", "", 0}, {"Get", "SZSE_BIN", 0}, {"Get", "CRC16", 0}},
		{{"Remove", "SZSE_BIN", 0}, {"Registry", "SZSE_BIN", 2}, {"Remove", "CRC32", 0}, {"Registry", "CRC32", 1}, {"LibOps", "", 0}, {"Get", "SZSE_BIN", 0}, {"Get", "CRC32", 0}},
	}[k%nFirstCallScenarios]
	model := map[string]int64{"CRC16": -1, "CRC32": -1, "SSE_BIN": -1, "SZSE_BIN": -1} // -1 = a built-in service
	next := int64(100)
	for i, o := range scen {
		var got, want string
		switch o.kind {
		case "Clear":
			codec.Clear()
			model = map[string]int64{}
		case "Remove":
			codec.Remove(o.name)
			delete(model, o.name)
		case "Registry":
			next++
			var s any = &svc{name: o.name, id: next}
			switch o.flavor {
			case 1:
				s = &svcU32{svc{name: o.name, id: next}}
			case 2:
				s = &svcI32{svc{name: o.name, id: next}}
			}
			ok := codec.Registry(s)
			_, present := model[o.name]
			if !present {
				model[o.name] = next
			}
			got, want = fmt.Sprint(ok), fmt.Sprint(!present)
		case "Get":
			s, ok := codec.Get(o.name)
			id := int64(0)
			if ok {
				id = -1
				switch h := s.(type) {
				case *svc:
					id = h.id
				case *svcU32:
					id = h.id
				case *svcI32:
					id = h.id
				}
			}
			got, want = fmt.Sprint(id), fmt.Sprint(model[o.name])
		case "RegistryNameless":
			// a value without Algorithm() has no name to be stored under: a successful registration nobody can
			// ever look up is not explainable by a sequential map
			got, want = fmt.Sprint(codec.Registry(struct{ X int }{7})), "false"
		case "LibOps":
			got = libOps()
			want = got
		}
		steps = append(steps, fmt.Sprintf("%s(%s)->%s", o.kind, o.name, got))
		if got != want && bad == "" {
			bad = fmt.Sprintf("step %d %s(%s): observed %s, the sequential model started from the four built-ins says %s", i, o.kind, o.name, got, want)
		}
	}
	return
}

const nFirstCallScenarios = 10

// libOps encodes and decodes one frame of every frame type (panics trapped, outcomes ignored: whether an
// encode copes with the service it finds is not C19's question) and reports what happened for the trace.
func libOps() string {
	var out []string
	frames := []func() (codec.BinaryCodec, codec.BinaryCodec){
		func() (codec.BinaryCodec, codec.BinaryCodec) {
			return &szse.SzseBinary{MsgType: 3, Body: &szse.Heartbeat{}}, &szse.SzseBinary{}
		},
		func() (codec.BinaryCodec, codec.BinaryCodec) {
			return &sample.RootPacket{MsgType: 4, Payload: &sample.EmptyPacket{}}, &sample.RootPacket{}
		},
		func() (codec.BinaryCodec, codec.BinaryCodec) {
			return &sse.SseBinary{MsgType: 33, Body: &sse.Heartbeat{}}, &sse.SseBinary{}
		},
	}
	for _, mk := range frames {
		f, d := mk()
		var b bytes.Buffer
		err, p := mon.Call(func() error { return f.Encode(&b) })
		res := "ok"
		if p != nil {
			res = "panic"
		} else if err != nil {
			res = "error"
		}
		if res != "ok" {
			// decode something valid anyway: the bytes a correct encoder writes with no service registered
			b.Reset()
		}
		_, p2 := mon.Call(func() error { return d.Decode(bytes.NewBuffer(append([]byte(nil), b.Bytes()...))) })
		if p2 != nil {
			res += "+decode-panic"
		}
		out = append(out, res)
	}
	return strings.Join(out, ",")
}

func c19(e *Env) {
	r := e.R
	if len(e.Args) > 1 && e.Args[0] == "firstcall-child" {
		k := 0
		fmt.Sscan(e.Args[1], &k)
		steps, bad := firstCallScenario(k)
		r.Evals(1)
		r.DistinctAdd(1)
		r.Sample(map[string]any{"first_calls_of_a_fresh_process": steps, "verdict": map[bool]string{true: "explained by the sequential model", false: bad}[bad == ""]})
		if bad != "" {
			r.Violate(fmt.Sprintf("C19/first-calls-of-a-process-not-explained/scenario%d", k), "C19/first-calls-of-a-process-not-explained", map[string]any{"scenario": k, "history": steps, "problem": bad})
		}
		return
	}
	if len(e.Args) > 0 && (e.Args[0] == "race-child" || e.Args[0] == "plain-child") {
		n := e.N(3000, 150000)
		label := "plain"
		if e.Args[0] == "race-child" {
			n, label = e.N(500, 15000), "race-build"
		}
		st := c19Workload(e, n, label)
		r.Evals(int64(st.Histories))
		r.DistinctAdd(int64(st.HistoriesWithOverlap))
		r.Set("stats", st)
		if st.Unknown > 0 {
			r.Count("checker_timeouts", int64(st.Unknown))
		}
		return
	}
	r.Rule("short concurrent histories against the real registry: shape A = 6 goroutines × 5 operations on the 3 algorithm names that generated frame encoders look up (SZSE_BIN, CRC32, SSE_BIN), mix 38% Registry / 15% Get / 17% EncodeLookup (a real SzseBinary / RootPacket / SseBinary frame encode; the harness services return their registration id as checksum, so the trailer reveals which registration the encoder's internal look-up saw) / 25% Remove / 5% Clear; every second history starts from a registry that also holds 64 background names; shape B (every 5th) = 12 goroutines all registering the same fresh name at once, then looking it up; every 10th history uses 3 goroutines × 10 operations, another every 10th 10 goroutines × 3, another every 10th is a drain history (the registry held 70 names and was emptied by single Removes; the last Remove races registrations of the modelled names); goroutines are released by a busy-wait barrier so calls genuinely overlap, with private random jitter between (never inside) calls; every registered service carries a unique id so that a look-up identifies the registration it saw; one sequential Get per name is appended after the goroutines have joined. Histories are recorded at the client boundary into per-goroutine slices with one monotonic clock (no shared recorder state inside the measured region). The workload runs in its own child process (it clears the built-in services; a runtime 'concurrent map' abort must not take the monitor down), once in a plain build and once in a -race build; plus ten fresh processes whose very first registry calls are Clear / Remove / Registry / Get on the names of the built-in services, five of them with frame encodes and decodes of every frame type in between while the name holds nothing, a built-in, or an application service whose Calc has the expected or ANOTHER result type or is missing (sequential, judged against the model started from the four built-ins: library work never changes the registry). distinct_nontrivial = histories with at least one real-time overlap between calls of different goroutines")
	r.Explain("Oracle 1: porcupine v1.3.0 linearizability check of every recorded history against a 25-line sequential map model (Registry succeeds iff the name is absent; Get returns the current registration or absent; Remove; Clear), unpartitioned because Clear spans names; checker timeout 10 s per history ⇒ inconclusive, never a violation. Oracle 2: Go race detector on the same workload (reports counted from the log), and the runtime's own 'concurrent map read and map write' abort. Oracle 3: the quiescent final Gets must be explained by the same linearization (a lost or duplicated insert nobody happened to read is still caught); shape B additionally asserts exactly one winner that the later look-up returns. A Get that returns a service whose own name differs from the name asked for can never be explained.")
	r.Assume("linearizability is decided for the histories recorded, not for all interleavings", "the race detector judges only the accesses the workload performed")
	runBuild := func(bin, mode, label string) {
		if bin == "" {
			r.Inconclusive("no " + label + " binary available")
			return
		}
		logBase := fmt.Sprintf("%s/.work/C19-%s", monRoot(), label)
		os.MkdirAll(logBase, 0o755)
		for _, f := range globLogs(logBase) {
			os.Remove(f)
		}
		cmd := exec.Command(bin, append([]string{"C19", "--tier", e.Tier, "--seed", fmt.Sprint(e.Seed)}, strings.Fields(mode)...)...)
		cmd.Env = append(os.Environ(), "VERIF_CHILD=1", "GORACE=halt_on_error=0 log_path="+logBase+"/race")
		out, err := watchedOutput(r, cmd, e.Thorough, label)
		races := 0
		var firstReport string
		for _, f := range globLogs(logBase) {
			b, _ := os.ReadFile(f)
			races += strings.Count(string(b), "WARNING: DATA RACE")
			if firstReport == "" && races > 0 {
				firstReport = string(b[:min(len(b), 3000)])
			}
		}
		var sum struct {
			Evaluations int64            `json:"evaluations"`
			Distinct    int64            `json:"distinct_nontrivial"`
			Violations  int              `json:"violations"`
			Extra       map[string]any   `json:"extra"`
			Counters    map[string]int64 `json:"counters"`
			Samples     []any            `json:"samples"`
		}
		var relayed []string
		lines := strings.Split(string(out), "\n")
		for i := 0; i < len(lines); i++ {
			if strings.HasPrefix(lines[i], "CHILD-SUMMARY ") {
				json.Unmarshal([]byte(strings.TrimPrefix(lines[i], "CHILD-SUMMARY ")), &sum)
			}
			if strings.HasPrefix(lines[i], "VIOLATION ") {
				blk := lines[i]
				for i+1 < len(lines) && strings.HasPrefix(lines[i+1], "  ") {
					i++
					blk += "\n" + lines[i]
				}
				relayed = append(relayed, blk)
			}
		}
		r.Relay(relayed)
		r.AddViolations(sum.Violations)
		r.Evals(sum.Evaluations)
		r.DistinctAdd(sum.Distinct)
		for _, sm := range sum.Samples {
			r.Sample(sm)
		}
		r.Set(label, map[string]any{"histories": sum.Evaluations, "stats": sum.Extra["stats"], "race_reports": races})
		if races > 0 {
			r.Violate("C19/data-race", "C19/data-race", map[string]any{"build": label, "reports": races, "first_report": firstReport})
		}
		if strings.Contains(string(out), "fatal error: concurrent map") {
			r.Violate("C19/concurrent-map-access-abort", "C19/concurrent-map-access-abort", map[string]any{"build": label, "output": tailStr(string(out[:min(len(out), 2500)]), 2500)})
		} else if sum.Evaluations == 0 && races == 0 {
			if strings.Contains(string(out), "fatal error") || strings.Contains(string(out), "panic:") {
				r.Violate("C19/workload-process-died", "C19/workload-process-died", map[string]any{"build": label, "output": string(out[:min(len(out), 2500)])})
			} else {
				r.Inconclusive(label + " run did not complete: " + fmt.Sprint(err) + " " + tailStr(string(out), 400))
			}
		}
		if n := sum.Counters["checker_timeouts"]; n > 0 {
			r.Inconclusive(fmt.Sprintf("%d histories timed out in the checker (%s)", n, label))
		}
	}
	runBuild(os.Getenv("VERIF_BIN"), "plain-child", "plain_build")
	runBuild(os.Getenv("VERIF_BIN_RACE"), "race-child", "race_build")
	// fresh processes whose very first registry calls are Clear / Remove / Registry / Get on the built-in names
	for k := 0; k < nFirstCallScenarios; k++ {
		runBuild(os.Getenv("VERIF_BIN"), fmt.Sprintf("firstcall-child %d", k), fmt.Sprintf("first_calls_scenario_%d", k))
	}
}
