package checks

import (
	"bytes"
	"fmt"
	"reflect"

	"verif/internal/gen"
	"verif/internal/schema"
	"verif/internal/val"
)

func init() { Registry["C06"] = c06 }

func c06(e *Env) {
	r := e.R
	isDrainingChild(e)
	r.Rule("every one of the 170 types × values (even cases canonical, odd cases arbitrary; only values that encode without error are judged) × buffer history H1..H9; plus mixed-type sequences of up to 20 messages into one buffer with random partial drains in between and, before one message in six, an encode that must FAIL (at every 8/16-bit prefixed site of every type: one element too many, a text one byte too long, one list element one byte too long; an unregistered key, or a caller-supplied body that writes N bytes and then refuses - bare or inside its frame) into a buffer that is thrown away; the whole check is repeated in a child whose checksum services read the buffer they are handed to its end. distinct_nontrivial = distinct (non-zero value hash, history) pairs + distinct sequences")
	r.Explain("Oracle per encode: (i) the unread bytes present before the call are unchanged afterwards; (ii) the appended bytes equal the bytes obtained by encoding a deep clone (taken before the first encode) into a fresh empty buffer; (iii) encoding the same object a second and a third time into fresh buffers gives the same bytes (computed fields and materialised bodies do not change the result); (iv) for a sequence m1..mn with random drains, the final unread content equals the concatenation of the individual fresh encodings minus the drained prefix.")
	r.Assume("bytes.Buffer itself is correct")
	types := e.Types()
	n := e.N(60, 5000)
	hs := newFeatAcc()
	e.Par(len(types), func(i int) {
		t := types[i]
		local := map[uint64]struct{}{}
		lf := map[string]int{}
		var evals int64
		cs := e.caseOpts(t, n, 1, false, false)
		for ci, o := range cs {
			if ci%2 == 1 {
				o.Arbitrary = true
			}
			g := e.Gen(o, t.QName, ci)
			v := g.Value(t)
			if ci == len(cs)-1 {
				v = e.C.New[t.QName]() // the zero value: every nested part, body and extension absent (encoders materialise them)
			}
			fresh, ferr, fp := EncodeFresh(val.Clone(v))
			if fp != nil || ferr != nil {
				// an encode that fails may leave a partial frame behind, but it must not alter what was in the buffer
				if fp == nil {
					for h := 1; h < nHist; h++ {
						buf, pre := mkHistory(h, g.R, nil, g.R.Intn(40))
						if len(pre) == 0 {
							continue
						}
						_, p := LibEncode(val.Clone(v), buf)
						evals++
						after := buf.Bytes()
						if p == nil && (len(after) < len(pre) || !bytes.Equal(after[:len(pre)], pre)) {
							r.Violate("C06/failed-encode-altered-earlier-bytes/"+t.QName+"/"+histNames[h], "C06/failed-encode-altered-earlier-bytes/"+t.QName, map[string]any{"type": t.QName, "case": ci, "history": histNames[h], "value": val.Summary(v, 300), "before": val.Hex(pre, 96), "after": val.Hex(after, 96)})
							break
						}
						lf["failed-encodes-leaving-earlier-bytes-intact"]++
					}
				}
				lf["skipped:value-does-not-encode"]++
				continue
			}
			hv := val.Hash(v)
			// (vi) what one message's encode attached to it (materialised parts, a filled-in body or extension) is
			// scribbled over in place; an equal, untouched message must still encode to the same bytes
			{
				a, b2 := val.Clone(v), val.Clone(v)
				if _, err, p := EncodeFresh(a); err == nil && p == nil {
					scramble(reflect.ValueOf(a), gen.NewRng(e.Seed, "C06", "scribble", t.QName, ci))
					w2, err2, p2 := EncodeFresh(b2)
					evals++
					if p2 == nil && (err2 != nil || !bytes.Equal(w2, fresh)) {
						d := firstDiffPlain(w2, fresh)
						d["type"], d["case"], d["value"], d["error"] = t.QName, ci, val.Summary(v, 300), fmt.Sprint(err2)
						d["history"] = "an equal message was encoded first and then overwritten in place (including whatever its Encode attached to it)"
						r.Violate("C06/bytes-depend-on-another-message-that-was-modified-after-its-encode/"+t.QName, "C06/bytes-depend-on-another-message/"+t.QName, d)
						continue
					}
					lf["equal-message-encodes-identically-after-the-first-was-overwritten"]++
				}
			}
			for h := 0; h < nHist; h++ {
				m := val.Clone(v)
				room := 0
				if fi := frameOf(t); fi != nil {
					room = fi.hdr
				} else {
					room = g.R.Intn(16)
				}
				if h == 8 {
					room = len(fresh) - 1 - g.R.Intn(4)
				}
				buf, pre := mkHistory(h, g.R, fresh, room)
				err, p := LibEncode(m, buf)
				evals++
				det := func(extra map[string]any) map[string]any {
					d := map[string]any{"type": t.QName, "case": ci, "history": histNames[h], "value": val.Summary(v, 400), "prior_unread_bytes": len(pre), "fresh_bytes": val.Hex(fresh, 128)}
					for k, x := range extra {
						d[k] = x
					}
					return d
				}
				if p != nil || err != nil {
					r.Violate("C06/context-dependent-failure/"+t.QName, "C06/context-dependent-failure/"+t.QName, det(map[string]any{"error": fmt.Sprint(err), "panic": fmt.Sprint(p)}))
					continue
				}
				after := buf.Bytes()
				if len(after) < len(pre) || !bytes.Equal(after[:len(pre)], pre) {
					r.Violate("C06/prior-bytes-altered/"+t.QName+"/"+histNames[h], "C06/prior-bytes-altered/"+t.QName, det(map[string]any{"after": val.Hex(after, 128), "before": val.Hex(pre, 128)}))
					continue
				}
				a := after[len(pre):]
				if !bytes.Equal(a, fresh) {
					r.Violate("C06/appended-differs-from-fresh/"+t.QName+"/"+histNames[h], "C06/appended-differs-from-fresh/"+t.QName, det(firstDiffPlain(a, fresh)))
					continue
				}
				lf[histNames[h]]++
				if !val.IsZero(v) {
					local[hv+uint64(h)*0x9E3779B97F4A7C15] = struct{}{}
				}
				// (iii) repeatability on the same object
				if h == 0 || h == 3 {
					for rep := 2; rep <= 3; rep++ {
						again, err, p := EncodeFresh(m)
						evals++
						if p != nil || err != nil || !bytes.Equal(again, fresh) {
							r.Violate("C06/re-encode-differs/"+t.QName, "C06/re-encode-differs/"+t.QName, det(map[string]any{"encode_number": rep, "error": fmt.Sprint(err), "panic": fmt.Sprint(p), "again": val.Hex(again, 128)}))
							break
						}
					}
					lf["re-encodes-identical"]++
				}
			}
			if ci == 0 && i%50 == 0 {
				r.Sample(map[string]any{"type": t.QName, "value": val.Summary(v, 200), "fresh_bytes": val.Hex(fresh, 64), "histories": histNames, "verdict": "prefix untouched, appended == fresh, re-encode identical"})
			}
		}
		r.Evals(evals)
		r.DistinctMany(local)
		hs.merge(lf)
	})
	// ---- (iv) sequences
	if e.Only == "" {
		nseq := e.N(2000, 150000)
		var codecs []*schema.Type
		byMod := map[string][]*schema.Type{}
		for _, t := range e.S.Order {
			codecs = append(codecs, t)
			byMod[t.Pkg] = append(byMod[t.Pkg], t)
		}
		mods := sortedKeys(byMod)
		// values whose encoding must FAIL (65 536 elements behind a 16-bit count), bare and inside their frame:
		// a failed encode (into a buffer the caller throws away) must not influence the next encode
		var failers []any
		for _, t := range e.S.Order {
			for _, s := range lenSites(t) {
				if s.max > 0xFFFF {
					continue
				}
				// every kind of refusal: too many elements, a text too long for its prefix, one list element too long
				g := &gen.Gen{S: e.S, C: e.C, R: gen.NewRng(e.Seed, "C06", "failer", t.QName, s.field.Name, s.what), O: &gen.Opts{Lens: []int{1}, StrLens: []int{2}}}
				v := g.Value(t)
				setLen(e, t, v, s, s.max+1, g)
				failers = append(failers, v)
				// the same body inside every frame type that can carry it
				for _, ft := range e.S.Order {
					for _, f := range ft.Fields {
						if f.Kind != "union" || ft.Pkg != t.Pkg {
							continue
						}
						tb := e.S.Table(ft.Pkg, f.Table)
						for _, en := range tb.Entries {
							if en.Type == t.Name {
								fg := &gen.Gen{S: e.S, C: e.C, R: gen.NewRng(e.Seed, "C06", "failer-frame", ft.QName), O: &gen.Opts{ForceKey: map[string]any{tb.QName: en.Key}}}
								fv := fg.Value(ft)
								reflect.ValueOf(fv).Elem().FieldByName(f.Name).Set(reflect.ValueOf(val.Clone(v)))
								failers = append(failers, fv)
							}
						}
					}
				}
			}
		}
		// every frame and every extension carrier with a caller-supplied body that writes a few bytes and then fails
		// (Body / ApplExtend are plain codec.BinaryCodec fields: any implementation is a legitimate value)
		for _, t := range e.S.Order {
			for _, f := range t.Fields {
				if f.Kind != "union" {
					continue
				}
				fg := &gen.Gen{S: e.S, C: e.C, R: gen.NewRng(e.Seed, "C06", "failer-stub", t.QName), O: &gen.Opts{}}
				fv := fg.Value(t)
				reflect.ValueOf(fv).Elem().FieldByName(f.Name).Set(reflect.ValueOf(&failingBody{N: 3 + len(failers)%17}))
				failers = append(failers, fv)
			}
		}
		hs.merge(map[string]int{"distinct-values-whose-encode-must-fail": len(failers)})
		e.Par(nseq, func(si int) {
			rng := gen.NewRng(e.Seed, "C06", "seq", si)
			g := &gen.Gen{S: e.S, C: e.C, R: rng, O: &gen.Opts{}}
			pool := codecs
			if si%2 == 0 {
				pool = byMod[mods[rng.Intn(len(mods))]]
			}
			buf := new(bytes.Buffer)
			var want []byte
			n := 2 + rng.Intn(19)
			var names []string
			ok := true
			for k := 0; k < n && ok; k++ {
				t := pool[rng.Intn(len(pool))]
				v := g.Value(t)
				fresh, ferr, fp := EncodeFresh(val.Clone(v))
				if ferr != nil || fp != nil {
					continue
				}
				names = append(names, t.QName)
				if rng.Chance(1, 6) && len(failers) > 0 {
					// an encode that fails, into a buffer that is thrown away, right before the real one
					fv := val.Clone(failers[rng.Intn(len(failers))])
					if ferr, fpanic := LibEncode(fv, new(bytes.Buffer)); ferr != nil || fpanic != nil {
						hs.merge(map[string]int{"failed-encodes-interleaved": 1})
					}
				}
				err, p := LibEncode(v, buf)
				if err != nil || p != nil {
					r.Violate("C06/sequence-encode-failed/"+t.QName, "C06/sequence-encode-failed/"+t.QName, map[string]any{"type": t.QName, "sequence": si, "position": k, "error": fmt.Sprint(err, p)})
					ok = false
					break
				}
				want = append(want, fresh...)
				if rng.Chance(1, 3) && buf.Len() > 0 {
					d := rng.Intn(buf.Len() + 1)
					buf.Next(d)
					want = want[d:]
				}
			}
			r.Evals(1)
			if !ok {
				return
			}
			if !bytes.Equal(buf.Bytes(), want) {
				d := firstDiffPlain(buf.Bytes(), want)
				d["sequence"] = si
				d["types"] = names
				r.Violate("C06/sequence-not-concatenation", "C06/sequence-not-concatenation", d)
				return
			}
			r.Distinct(val.Hash(fmt.Sprint(si, names)))
			hs.merge(map[string]int{"sequences-equal-concatenation": 1, "sequence-messages": len(names)})
			if si < 2 {
				r.Sample(map[string]any{"sequence": si, "types": names, "final_unread_bytes": buf.Len(), "verdict": "== concatenation of fresh encodings minus drained prefix"})
			}
		})
	}
	r.Set("observations", hs.m)
	runDrainingChild(e) // the same histories with checksum services that read the buffer they are handed to its end
}

// failingBody is a caller-supplied body that writes n bytes and then refuses.
type failingBody struct{ N int }

func (b *failingBody) Encode(buf *bytes.Buffer) error {
	buf.Write(bytes.Repeat([]byte{0xFB}, b.N))
	return fmt.Errorf("failingBody: refusing after %d bytes", b.N)
}
func (b *failingBody) Decode(*bytes.Buffer) error { return fmt.Errorf("failingBody") }

func firstDiffPlain(a, b []byte) map[string]any {
	n := len(a)
	if len(b) < n {
		n = len(b)
	}
	off := n
	for i := 0; i < n; i++ {
		if a[i] != b[i] {
			off = i
			break
		}
	}
	lo := off - 8
	if lo < 0 {
		lo = 0
	}
	hi := off + 16
	ha, hb := hi, hi
	if ha > len(a) {
		ha = len(a)
	}
	if hb > len(b) {
		hb = len(b)
	}
	return map[string]any{"first_diff_offset": off, "got_len": len(a), "want_len": len(b), "got_around": val.Hex(a[lo:ha], 64), "want_around": val.Hex(b[lo:hb], 64)}
}
