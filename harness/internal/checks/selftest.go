package checks

import (
	"encoding/hex"
	"fmt"
	"strings"

	bjse "github.com/xinchentechnote/fin-proto-go/bjse-trade-bin/messages"
	risk "github.com/xinchentechnote/fin-proto-go/risk-bin/messages"
	sample "github.com/xinchentechnote/fin-proto-go/sample-bin/messages"
	sse "github.com/xinchentechnote/fin-proto-go/sse-bin/messages"
	szse "github.com/xinchentechnote/fin-proto-go/szse-bin/messages"

	"verif/internal/bind"
	"verif/internal/gen"
	"verif/internal/ref"
	"verif/internal/schema"
	"verif/internal/val"
)

func sp(n int) string            { return strings.Repeat("20", n) }
func rep(h string, n int) string { return strings.Repeat(h, n) }

// golden vectors: expected hex written out by hand from the schema semantics (not produced by
// the library and not produced by ref).
var golden = []struct {
	name string
	typ  string
	msg  any
	hex  string
}{
	{"SSE heartbeat frame", "sse.SseBinary",
		&sse.SseBinary{MsgType: 33, MsgSeqNum: 1, Body: &sse.Heartbeat{}, MsgBodyLen: 0, Checksum: 0x22},
		"00000021" + "0000000000000001" + "00000000" + "00000022"},
	{"SZSE heartbeat frame", "szse.SzseBinary",
		&szse.SzseBinary{MsgType: 3, Body: &szse.Heartbeat{}, BodyLength: 0, Checksum: 3},
		"00000003" + "00000000" + "00000003"},
	{"sample root/empty packet (CRC-32 of 040000000000 = 2a53e3b5 by zlib)", "sample.RootPacket",
		&sample.RootPacket{MsgType: 4, Payload: &sample.EmptyPacket{}, PayloadLen: 0, Checksum: 0x2a53e3b5},
		"0400" + "00000000" + "b5e3532a"},
	{"BSE platform info, two partitions", "bjse.PlatformInfo",
		&bjse.PlatformInfo{PlatformId: 0x0102, NoPartitions: []*bjse.NoPartitions{{PartitionNo: 1, PartitionName: "P1"}, {PartitionNo: -2, PartitionName: ""}}},
		"0201" + "0200" + "01000000" + "5031" + sp(18) + "feffffff" + sp(20)},
	{"risk frame with RiskResult", "risk.RcBinary",
		&risk.RcBinary{MsgType: 800001, Version: 7, MsgBodyLen: 11, Body: &risk.RiskResult{UniqueOrderId: "ab", RiskStatus: 9, RiskReason: ""}},
		"000c3501" + "00000007" + "0000000b" + "00000002" + "6162" + "09" + "00000000"},
	{"sample string packet, every pad variant", "sample.StringPacket",
		&sample.StringPacket{FieldDynamicString: "ab", FieldDynamicString1: "", FieldFixedString1: "", FieldFixedString10: "42",
			FieldFixedString10Pad: "hi", FieldFixedString10PadWithNullTerminator: "xyz",
			FieldDynamicStringList: []string{"a", "bc"}, FieldDynamicString1List: []string{}, FieldFixedString1List: []string{"7"},
			FieldFixedString10List: []string{}, FieldFixedString10ListPad: []string{"q"}, FieldFixedString10PadWithNullTerminatorList: []string{"ab"}},
		"0200" + "6162" + "0000" + "30" + rep("30", 8) + "3432" + sp(8) + "6869" + "78797a" + rep("00", 7) +
			"0200" + "0100" + "61" + "0200" + "6263" + "0000" + "0100" + "37" + "0000" + "0100" + "71" + rep("30", 9) + "0100" + "6162" + rep("00", 8)},
	{"SSE exec report sync, one entry", "sse.ExecRptSync",
		&sse.ExecRptSync{SubExecRptSync: []*sse.SubExecRptSync{{Pbu: "PBU00001", SetId: 5, BeginReportIndex: 9}}},
		"0001" + "5042553030303031" + "00000005" + "0000000000000009"},
	{"sample basic packet lists are little-endian throughout", "sample.InerPacket",
		&sample.InerPacket{FieldU32: 0x01020304, FieldI16List: []int16{0x0102, -2}},
		"04030201" + "0200" + "0201" + "feff"},
	{"hand-written risk control request (big-endian)", "sample.RiskControlRequest",
		&sample.RiskControlRequest{UniqueOrderID: "u1", ClOrdID: "c", MarketID: "SH", SecurityID: "600000", Side: 1, OrderType: 2,
			Price: 0x0102030405060708, Qty: 0x0A0B0C0D, ExtraInfo: []string{"x"}, SubOrder: sample.SubOrder{ClOrdID: "s", Price: 1, Qty: 2}},
		"0002" + "7531" + "63" + sp(15) + "5348" + "20" + "363030303030" + sp(6) + "01" + "02" + "0102030405060708" + "0a0b0c0d" +
			"0001" + "0001" + "78" + "73" + sp(15) + "0000000000000001" + "00000002"},
}

// SelfTest anchors the reference codec to something other than itself and other than the
// library's codec code.  It never calls an Encode/Decode/codec function of /repo.
func SelfTest(verbose bool) int {
	s := schema.Load()
	c := ref.New(s, bind.News)
	fail := 0
	say := func(ok bool, f string, a ...any) {
		if !ok {
			fail++
			fmt.Printf("SELFTEST FAIL: "+f+"\n", a...)
		} else if verbose {
			fmt.Printf("selftest ok: "+f+"\n", a...)
		}
	}
	// schema shape
	nk := 0
	for _, tb := range s.Tables {
		nk += len(tb.Entries)
	}
	say(len(s.Types) == 170 && len(s.Tables) == 18 && nk == 226, "pinned schema has 170 types, 18 tables, 226 keys (got %d, %d, %d)", len(s.Types), len(s.Tables), nk)
	for q := range s.Types {
		if bind.News[q] == nil {
			say(false, "no binding for %s", q)
		}
	}
	// published check values
	say(ref.CRC16Modbus([]byte("123456789")) == 0x4B37, "CRC-16/MODBUS check value 0x4B37")
	say(ref.CRC32([]byte("123456789")) == 0xCBF43926, "CRC-32/IEEE check value 0xCBF43926")
	say(ref.SumMod256([]byte{0xFF, 0xFF, 0x03}) == 1, "byte sum mod 256")
	say(string(ref.FixWrite("ab", 4, '0', true)) == "00ab" && string(ref.FixWrite("abcdef", 4, ' ', false)) == "abcd" && ref.FixRead([]byte("0a0 "), '0', true) == "a0 " && ref.FixRead([]byte(" a  "), ' ', false) == " a", "fixed-text model")
	// golden vectors
	for _, g := range golden {
		t := s.Types[g.typ]
		want, err := hex.DecodeString(g.hex)
		if err != nil {
			say(false, "golden %s: bad hex", g.name)
			continue
		}
		got, err := c.Encode(t, g.msg)
		say(err == nil && string(got) == string(want), "golden encode: %s (%d bytes)", g.name, len(want))
		if string(got) != string(want) && verbose {
			fmt.Printf("   want %x\n   got  %x\n", want, got)
		}
		m, n, _, err := c.Decode(t, want, false)
		d := ""
		if err == nil {
			d = val.Equal(g.msg, m)
		}
		say(err == nil && n == len(want) && d == "", "golden decode: %s %v %s", g.name, err, d)
	}
	// ref round trip on generated canonical values of every type
	n := 0
	for i, t := range s.Order {
		for k := 0; k < 6; k++ {
			g := &gen.Gen{S: s, C: c, R: gen.NewRng(7, "selftest", t.QName, k), O: &gen.Opts{}}
			v := g.Value(t)
			w, err := c.Encode(t, v)
			if err != nil {
				say(false, "ref encode %s: %v", t.QName, err)
				continue
			}
			m, used, _, err := c.Decode(t, w, false)
			if err != nil || used != len(w) {
				say(false, "ref decode %s: %v used %d of %d", t.QName, err, used, len(w))
				continue
			}
			if d := val.Equal(withCorrectComputed(t, v, w), m); d != "" {
				say(false, "ref round trip %s: %s", t.QName, d)
			}
			n++
		}
		_ = i
	}
	say(n == 170*6, "reference codec round-trips %d generated values of all 170 types", n)
	if fail > 0 {
		return 2
	}
	return 0
}
