package checks

import (
	"bytes"
	"encoding/json"
	"fmt"
	"os"
	"os/exec"
	"reflect"
	"strings"

	"verif/internal/gen"
	"verif/internal/schema"
	"verif/internal/val"
)

func init() { Registry["C16"] = c16 }

// scramble mutates a message in place: every number, every text, every list element (in place,
// so that a slice shared with an output buffer would show), nested parts, and finally swaps
// body/extension objects for fresh ones.
func scramble(v reflect.Value, r *gen.Rng) {
	switch v.Kind() {
	case reflect.Pointer:
		if !v.IsNil() {
			scramble(v.Elem(), r)
		}
	case reflect.Interface:
		if !v.IsNil() {
			scramble(v.Elem(), r)
			// replace the member by a fresh zero object of the same type
			v.Set(reflect.New(v.Elem().Type().Elem()))
		}
	case reflect.Struct:
		for i := 0; i < v.NumField(); i++ {
			scramble(v.Field(i), r)
		}
	case reflect.Slice:
		for i := 0; i < v.Len(); i++ {
			scramble(v.Index(i), r)
		}
		if v.Len() > 0 && v.CanSet() {
			v.Set(v.Slice(0, v.Len()-1))
		}
	case reflect.String:
		v.SetString(strings.Repeat("#", v.Len()+1))
	case reflect.Int8, reflect.Int16, reflect.Int32, reflect.Int64:
		v.SetInt(^v.Int())
	case reflect.Uint8, reflect.Uint16, reflect.Uint32, reflect.Uint64:
		v.SetUint(^v.Uint())
	case reflect.Float32, reflect.Float64:
		v.SetFloat(v.Float()*2 + 1)
	}
}

// collectLists returns every non-empty list (slice value) reachable from v, together with a deep copy of each.
func collectLists(v reflect.Value) (kept, copies []reflect.Value) {
	var walk func(v reflect.Value, depth int)
	walk = func(v reflect.Value, depth int) {
		if depth > 6 {
			return
		}
		switch v.Kind() {
		case reflect.Pointer, reflect.Interface:
			if !v.IsNil() {
				walk(v.Elem(), depth+1)
			}
		case reflect.Struct:
			for i := 0; i < v.NumField(); i++ {
				walk(v.Field(i), depth+1)
			}
		case reflect.Slice:
			if v.Len() == 0 {
				return
			}
			hdr := reflect.New(v.Type()).Elem()
			hdr.Set(v) // the caller's own copy of the slice header (same backing array)
			kept = append(kept, hdr)
			cp := reflect.ValueOf(val.Clone(hdrPtr(hdr))).Elem()
			copies = append(copies, cp)
		}
	}
	walk(v, 0)
	return
}

func hdrPtr(v reflect.Value) any {
	p := reflect.New(v.Type())
	p.Elem().Set(v)
	return p.Interface()
}

func g0(e *Env, t *schema.Type) *gen.Rng { return gen.NewRng(e.Seed, "C16", "scramble", t.QName) }

func c16Workload(e *Env) {
	r := e.R
	types := e.Types()
	n := e.N(100, 12000)
	acc := newFeatAcc()
	e.Par(len(types), func(i int) {
		t := types[i]
		local := map[uint64]struct{}{}
		lf := map[string]int{}
		var evals int64
		cs := e.caseOpts(t, n, 1, false, false)
		for ci, o := range cs {
			o.Lens = []int{1, 2, 3, 17}
			switch ci {
			case 7, 57:
				o.Lens = []int{600} // bulk / block fast paths start at a few hundred elements
				o.StrLens = []int{2, 300}
			case 9:
				o.Lens = []int{5000}
				o.StrLens = []int{1}
			}
			g := e.Gen(o, t.QName, ci)
			v := g.Value(t)
			w0, err, p := EncodeFresh(val.Clone(v))
			if err != nil || p != nil || len(w0) == 0 {
				lf["skipped:no-image"]++
				continue
			}
			// ---------------- decode side
			w := append([]byte(nil), w0...) // harness-owned backing array
			b := bytes.NewBuffer(w)
			m := e.C.New[t.QName]()
			if err, p := LibDecode(m, b); err != nil || p != nil {
				continue
			}
			snap := val.Clone(m)
			det := func(step string, diff string) map[string]any {
				return map[string]any{"type": t.QName, "case": ci, "step": step, "first_difference": diff, "image": val.Hex(w0, 160), "message_after": val.Summary(m, 300)}
			}
			// (i) overwrite every byte of the source array
			for k := range w {
				w[k] = ^w[k]
			}
			evals++
			if d := val.Equal(snap, m); d != "" {
				r.Violate("C16/decoded-message-aliases-source-bytes/"+t.QName, "C16/decoded-message-aliases-source-bytes/"+t.QName, det("overwrite every source byte with its complement", d))
				continue
			}
			// (ii) reset and reuse the buffer for unrelated data of the same length
			b.Reset()
			b.Write(g.R.Bytes(len(w0)))
			evals++
			if d := val.Equal(snap, m); d != "" {
				r.Violate("C16/decoded-message-aliases-buffer/"+t.QName, "C16/decoded-message-aliases-buffer/"+t.QName, det("Reset() and rewrite the buffer", d))
				continue
			}
			// (iii) decode a second, different message from the same buffer into another receiver
			b.Reset()
			v2 := g.Value(t)
			if err, p := LibEncode(v2, b); err == nil && p == nil {
				m2 := e.C.New[t.QName]()
				LibDecode(m2, b)
				evals++
				if d := val.Equal(snap, m); d != "" {
					r.Violate("C16/decoded-message-changed-by-next-decode/"+t.QName, "C16/decoded-message-changed-by-next-decode/"+t.QName, det("decode another message from the same buffer", d))
					continue
				}
			}
			// (iv) a twin decoded from the same bytes into another fresh receiver, then scribbled over in place
			// (every number, text and list element): two results of equal content must not share storage
			{
				twin := e.C.New[t.QName]()
				if err, p := LibDecode(twin, bytes.NewBuffer(append([]byte(nil), w0...))); err == nil && p == nil {
					scramble(reflect.ValueOf(twin), g0(e, t))
					evals++
					if d := val.Equal(snap, m); d != "" {
						r.Violate("C16/decoded-message-shares-storage-with-equal-twin/"+t.QName, "C16/decoded-message-shares-storage-with-equal-twin/"+t.QName, det("decode the same bytes into a second receiver and overwrite that one in place", d))
						continue
					}
				}
			}
			// (v) the lists the caller took out of the message (slice headers) must survive the message being
			// reused as the receiver for the next, different message: a decoder that refills the old backing
			// arrays rewrites what the caller kept
			{
				kept, keptCopy := collectLists(reflect.ValueOf(m))
				if len(kept) > 0 {
					v3 := g.Value(t)
					if w3, err, p := EncodeFresh(v3); err == nil && p == nil {
						LibDecode(m, bytes.NewBuffer(append([]byte(nil), w3...)))
						evals++
						bad := ""
						for k := range kept {
							if d := val.Equal(keptCopy[k].Interface(), kept[k].Interface()); d != "" {
								bad = d
								break
							}
						}
						if bad != "" {
							r.Violate("C16/list-kept-by-caller-rewritten-by-next-decode-into-same-receiver/"+t.QName, "C16/list-kept-by-caller-rewritten/"+t.QName, map[string]any{"type": t.QName, "case": ci, "first_difference_in_a_kept_list": bad, "step": "keep the message's lists, decode another message into the same receiver"})
							continue
						}
						lf["kept-lists-survive-receiver-reuse"]++
					}
				}
			}
			lf["decode-side-triples-clean"]++
			// ---------------- encode side
			mm := val.Clone(v)
			out := new(bytes.Buffer)
			out.Write([]byte("prefix"))
			if err, p := LibEncode(mm, out); err != nil || p != nil {
				continue
			}
			snapBytes := append([]byte(nil), out.Bytes()...)
			scramble(reflect.ValueOf(mm), g.R)
			evals++
			if !bytes.Equal(out.Bytes(), snapBytes) {
				d := firstDiffPlain(out.Bytes(), snapBytes)
				d["type"] = t.QName
				d["case"] = ci
				r.Violate("C16/encoded-bytes-alias-message/"+t.QName, "C16/encoded-bytes-alias-message/"+t.QName, d)
				continue
			}
			// the scrambled message must now encode to something else (the mutation was real)
			if w3, err, p := EncodeFresh(mm); err == nil && p == nil && !bytes.Equal(w3, w0) {
				lf["encode-side-mutation-was-effective"]++
				local[val.Hash(v)] = struct{}{}
			}
			lf["encode-side-clean"]++
			if ci == 0 && i%50 == 0 {
				r.Sample(map[string]any{"type": t.QName, "image": val.Hex(w0, 48), "steps": []string{"complement source bytes", "reset+rewrite buffer", "decode another message from same buffer", "scramble message after encode"}, "verdict": "message and bytes unchanged"})
			}
		}
		// where the encoder fills in an absent body/extension: mutate the object it attached, then let it fill
		// another message with the same key - the second one must still get a blank body of its own
		for _, f := range t.Fields {
			if f.Kind != "union" || !f.Fill {
				continue
			}
			tb := e.S.Table(t.Pkg, f.Table)
			for _, en := range tb.Entries {
				mk := func(tag string) any {
					v := e.Gen(&gen.Opts{ForceKey: map[string]any{tb.QName: en.Key}}, t.QName, "fill", fmt.Sprint(en.Key), tag).Value(t)
					fv := reflect.ValueOf(v).Elem().FieldByName(f.Name)
					fv.Set(reflect.Zero(fv.Type()))
					return v
				}
				m1, m2 := mk("first"), mk("second")
				want, rerr := e.C.Encode(t, val.Clone(m2))
				if err, p := LibEncode(m1, new(bytes.Buffer)); err != nil || p != nil || rerr != nil {
					continue
				}
				scramble(reflect.ValueOf(m1).Elem().FieldByName(f.Name), g0(e, t))
				got, err, p := EncodeFresh(m2)
				evals++
				if err != nil || p != nil || !bytes.Equal(got, want) {
					d := firstDiffPlain(got, want)
					d["type"], d["key"], d["step"] = t.QName, en.Key, "Encode(m1 with absent "+f.Name+") -> mutate the object the encoder attached to m1 -> Encode(m2 with absent "+f.Name+", same key)"
					r.Violate("C16/encoder-filled-bodies-share-one-object/"+t.QName, "C16/encoder-filled-bodies-share-one-object/"+t.QName, d)
					break
				}
				lf["encoder-filled-bodies-independent"]++
			}
		}
		r.Evals(evals)
		r.DistinctMany(local)
		acc.merge(lf)
	})
	r.Set("observations", acc.m)
	c16Pool(e)
	if !(len(e.Args) > 0 && e.Args[0] == "race-child") && e.Only == "" {
		c16HugeSource(e)
		c16AfterManyDistinct(e)
	}
}

// c16AfterManyDistinct decodes 300 000 messages with pairwise distinct texts through each decoder that reads
// prefixed texts (bounded intern tables and caches behave differently once they are full) and then repeats the
// decode-side aliasing test.
func c16AfterManyDistinct(e *Env) {
	r := e.R
	n := 0
	var ts []*schema.Type
	for _, t := range e.S.Order {
		for _, f := range t.Fields {
			if f.Kind == "pstr" && f.Prefix == "u32" {
				ts = append(ts, t)
				break
			}
		}
	}
	e.Par(len(ts), func(i int) {
		t := ts[i]
		g := e.Gen(&gen.Opts{StrLens: []int{3}}, t.QName, "many-distinct")
		base := g.Value(t)
		bv := reflect.ValueOf(base).Elem()
		var texts []reflect.Value
		for _, f := range t.Fields {
			if f.Kind == "pstr" {
				texts = append(texts, bv.FieldByName(f.Name))
			}
		}
		buf := new(bytes.Buffer)
		d := e.C.New[t.QName]()
		for k := 0; k < 300000; k++ {
			for j, tv := range texts {
				tv.SetString(fmt.Sprintf("v%d-%d", j, k))
			}
			buf.Reset()
			if err, p := LibEncode(base, buf); err != nil || p != nil {
				return
			}
			if err, p := LibDecode(d, buf); err != nil || p != nil {
				return
			}
		}
		// now the aliasing test on a few more distinct messages
		for k := 0; k < 20; k++ {
			for j, tv := range texts {
				tv.SetString(fmt.Sprintf("late-%d-%d", j, k))
			}
			w, err, p := EncodeFresh(val.Clone(base))
			if err != nil || p != nil {
				return
			}
			src := append([]byte(nil), w...)
			m := e.C.New[t.QName]()
			if err, p := LibDecode(m, bytes.NewBuffer(src)); err != nil || p != nil {
				return
			}
			snap := val.Clone(m)
			for x := range src {
				src[x] = ^src[x]
			}
			r.Evals(1)
			if dd := val.Equal(snap, m); dd != "" {
				r.Violate("C16/decoded-message-aliases-source-bytes/"+t.QName+"/after-300000-distinct-messages", "C16/decoded-message-aliases-source-bytes/"+t.QName, map[string]any{"type": t.QName, "step": "decode 300000 messages with distinct texts, then decode one more and complement its source", "first_difference": dd})
				return
			}
		}
		r.Count("types-checked-after-300000-distinct-messages", 1)
	})
	_ = n
}

// c16HugeSource decodes ordinary small frames from a source buffer that still holds ~96 MiB of further frames
// (a session or replay image): fast paths keyed on "how much is buffered" only show up there.
func c16HugeSource(e *Env) {
	r := e.R
	n := 0
	for _, t := range e.S.Order {
		isFrame := false
		for _, f := range t.Fields {
			if f.Kind == "union" && f.Key == "MsgType" {
				isFrame = true
			}
		}
		if !isFrame {
			continue
		}
		g := e.Gen(&gen.Opts{}, t.QName, "huge-source")
		var one []byte
		for k := 0; k < 40; k++ {
			w, err, p := EncodeFresh(g.Value(t))
			if err == nil && p == nil {
				one = append(one, w...)
			}
		}
		if len(one) == 0 {
			continue
		}
		img := make([]byte, 0, 96<<20+len(one))
		for len(img) < 96<<20 {
			img = append(img, one...)
		}
		buf := bytes.NewBuffer(img)
		var msgs, snaps []any
		for k := 0; k < 3; k++ {
			m := e.C.New[t.QName]()
			if err, p := LibDecode(m, buf); err != nil || p != nil {
				break
			}
			msgs = append(msgs, m)
			snaps = append(snaps, val.Clone(m))
		}
		for i := range img {
			img[i] = ^img[i]
		}
		for k := range msgs {
			r.Evals(1)
			n++
			if d := val.Equal(snaps[k], msgs[k]); d != "" {
				r.Violate("C16/decoded-message-aliases-source-bytes/"+t.QName+"/96MiB-source", "C16/decoded-message-aliases-source-bytes/"+t.QName, map[string]any{"type": t.QName, "step": "decode 3 frames from a buffer holding 96 MiB of frames, then complement the whole image", "first_difference": d})
				break
			}
		}
	}
	r.Set("frames_decoded_from_a_96MiB_source", n)
}

func c16(e *Env) {
	r := e.R
	r.Rule("every type × canonical values with non-empty lists (1,2,3,17 elements) and populated nested parts, two values per type with 600-element and one with 5000-element lists (bulk / zero-copy fast paths start at a size threshold): decode side — decode from a harness-owned byte array, then (i) complement every source byte, (ii) Reset() the buffer and write unrelated bytes of the same length, (iii) decode a different message from the same buffer into another receiver; encode side — encode behind a prefix, then mutate the message in place (every number, text, list element, nested part; swap body/extension objects). Then, per type, a pool of 4 long-lived objects (one of them the zero value) and 2 buffers is used over and over for 60 (thorough 1500) random operations — encode object i into buffer j, decode a wire-level or valid image into object i, reset a buffer, replace an object — as an application that pools messages and buffers would. The same workload is repeated in a -race build (checkptr instrumentation on). distinct_nontrivial = distinct non-zero values whose in-place mutation provably changed their own encoding")
	r.Explain("Oracle: the decoded message ≡ its deep snapshot after each of (i)-(iii); the bytes already written == their snapshot after the message mutation; in the pool walk an operation on one object/buffer leaves every OTHER pooled object ≡ its snapshot and every other buffer unchanged, and what the operation produces equals what the stateless reference interpreter produces for the same input; zero race-detector / checkptr reports or aborts in the instrumented run.")
	r.Assume("checkptr only flags invalid unsafe conversions; a zero-copy alias that is 'valid' for checkptr is still caught by oracle (i)")
	if len(e.Args) > 0 && e.Args[0] == "race-child" {
		e.Workers = 1 // single goroutine: what the instrumented run adds is checkptr, not race hunting
		c16Workload(e)
		return
	}
	c16Workload(e)
	// ---- the same workload under the race detector / checkptr
	bin := os.Getenv("VERIF_BIN_RACE")
	if bin == "" || e.Only != "" {
		r.Set("race_build_run", "skipped (no race binary or --only)")
		return
	}
	logBase := fmt.Sprintf("%s/.work/C16-race", monRoot())
	os.MkdirAll(logBase, 0o755)
	for _, f := range globLogs(logBase) {
		os.Remove(f)
	}
	cmd := exec.Command(bin, "C16", "--tier", "quick", "--seed", fmt.Sprint(e.Seed), "race-child")
	cmd.Env = append(os.Environ(), "VERIF_CHILD=1", "GORACE=halt_on_error=0 log_path="+logBase+"/race")
	out, err := watchedOutput(r, cmd, e.Thorough, "race-build run")
	races := 0
	for _, f := range globLogs(logBase) {
		b, _ := os.ReadFile(f)
		races += strings.Count(string(b), "WARNING: DATA RACE")
	}
	var sum struct {
		Evaluations int64 `json:"evaluations"`
		Violations  int   `json:"violations"`
	}
	for _, line := range strings.Split(string(out), "\n") {
		if strings.HasPrefix(line, "CHILD-SUMMARY ") {
			json.Unmarshal([]byte(strings.TrimPrefix(line, "CHILD-SUMMARY ")), &sum)
		}
	}
	r.Set("race_build_run", map[string]any{"evaluations": sum.Evaluations, "violations": sum.Violations, "race_reports": races, "exit_error": fmt.Sprint(err)})
	r.Evals(sum.Evaluations)
	if strings.Contains(string(out), "fatal error: checkptr") || strings.Contains(string(out), "checkptr:") {
		r.Violate("C16/checkptr-abort", "C16/checkptr-abort", map[string]any{"output": tailStr(string(out), 1500)})
	} else if races > 0 {
		r.Violate("C16/race-report", "C16/race-report", map[string]any{"reports": races, "log": logBase})
	} else if sum.Violations > 0 {
		r.Violate("C16/violations-in-instrumented-run", "C16/violations-in-instrumented-run", map[string]any{"output": tailStr(string(out), 1500)})
	} else if err != nil || sum.Evaluations == 0 {
		if strings.Contains(string(out), "fatal error") || strings.Contains(string(out), "panic:") {
			r.Violate("C16/instrumented-run-died", "C16/instrumented-run-died", map[string]any{"output": tailStr(string(out), 1500)})
		} else {
			r.Inconclusive("instrumented (-race/checkptr) run did not complete: " + fmt.Sprint(err))
		}
	}
}

func tailStr(s string, n int) string {
	if len(s) > n {
		return s[len(s)-n:]
	}
	return s
}
