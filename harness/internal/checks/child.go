package checks

import (
	"bufio"
	"bytes"
	"encoding/json"
	"fmt"
	"os"
	"os/exec"
	"path/filepath"
	"strconv"
	"strings"
	"sync"
	"syscall"
	"time"
	"verif/internal/mon"
)

// Child-process isolation (DESIGN §2.4).  A check that may meet process-fatal events (out of
// memory, stack exhaustion, checkptr) runs its cases in child processes, one per shard.  The child
// appends "B <n> <case id>" to a log before every library call and "E <n>" after it, so that when
// it dies the parent knows the in-flight case: that input is the witness.

type childCase struct {
	n  int
	id string
}

// childLog is the pre-call log of a child.
type childLog struct {
	f   *os.File
	buf []byte
}

func openChildLog() *childLog {
	p := os.Getenv("VERIF_CHILD_LOG")
	if p == "" {
		return &childLog{}
	}
	f, err := os.OpenFile(p, os.O_APPEND|os.O_CREATE|os.O_WRONLY, 0o644)
	if err != nil {
		return &childLog{}
	}
	return &childLog{f: f, buf: make([]byte, 0, 512)}
}

func (l *childLog) begin(n int, id string) {
	if l.f == nil {
		return
	}
	l.buf = append(l.buf[:0], 'B', ' ')
	l.buf = strconv.AppendInt(l.buf, int64(n), 10)
	l.buf = append(l.buf, ' ')
	l.buf = append(l.buf, id...)
	l.buf = append(l.buf, '\n')
	l.f.Write(l.buf)
}

func (l *childLog) end(n int) {
	if l.f == nil {
		return
	}
	l.buf = append(l.buf[:0], 'E', ' ')
	l.buf = strconv.AppendInt(l.buf, int64(n), 10)
	l.buf = append(l.buf, '\n')
	l.f.Write(l.buf)
}

// limitAddressSpace applies RLIMIT_AS to this process ("memory-limited process").
func limitAddressSpace(bytes uint64) error {
	return syscall.Setrlimit(syscall.RLIMIT_AS, &syscall.Rlimit{Cur: bytes, Max: bytes})
}

// childArgs parses "child <shard> <nshards> [skip=<n>] [one=<n>]".
type childArgs struct {
	isChild        bool
	shard, nshards int
	skip           int
	one            int
}

func parseChildArgs(args []string) childArgs {
	c := childArgs{one: -1}
	if len(args) >= 3 && args[0] == "child" {
		c.isChild = true
		c.shard, _ = strconv.Atoi(args[1])
		c.nshards, _ = strconv.Atoi(args[2])
		for _, a := range args[3:] {
			if strings.HasPrefix(a, "skip=") {
				c.skip, _ = strconv.Atoi(a[5:])
			}
			if strings.HasPrefix(a, "one=") {
				c.one, _ = strconv.Atoi(a[4:])
			}
		}
	}
	return c
}

type childSummary struct {
	Evaluations int64            `json:"evaluations"`
	Distinct    int64            `json:"distinct_nontrivial"`
	Violations  int              `json:"violations"`
	Counters    map[string]int64 `json:"counters"`
	Extra       map[string]any   `json:"extra"`
	Samples     []any            `json:"samples"`
}

type childOutcome struct {
	shard    int
	sum      childSummary
	deaths   []map[string]any // witness per death
	timeouts int
	relayed  []string // VIOLATION blocks printed by the child
}

func lastInflight(logPath string) (n int, id string, ok bool) {
	f, err := os.Open(logPath)
	if err != nil {
		return 0, "", false
	}
	defer f.Close()
	sc := bufio.NewScanner(f)
	sc.Buffer(make([]byte, 1<<20), 1<<20)
	open := false
	for sc.Scan() {
		line := sc.Text()
		if strings.HasPrefix(line, "B ") {
			parts := strings.SplitN(line, " ", 3)
			if len(parts) == 3 {
				n, _ = strconv.Atoi(parts[1])
				id = parts[2]
				open = true
			}
		} else if strings.HasPrefix(line, "E ") {
			open = false
		}
	}
	return n, id, open
}

// runChildren runs nshards children of this binary for property e.R.Prop and merges what they saw.
// watchdog is the generous wall-clock limit per child run; its firing is never a verdict by itself.
func runChildren(e *Env, nshards int, watchdog time.Duration, extraEnv ...string) []*childOutcome {
	dir := filepath.Join(monRoot(), ".work", e.R.Prop+"-children")
	os.RemoveAll(dir)
	os.MkdirAll(dir, 0o755)
	outs := make([]*childOutcome, nshards)
	var wg sync.WaitGroup
	for s := 0; s < nshards; s++ {
		wg.Add(1)
		go func(s int) {
			defer wg.Done()
			oc := &childOutcome{shard: s, sum: childSummary{Counters: map[string]int64{}}}
			outs[s] = oc
			skip := 0
			for attempt := 0; attempt < 200; attempt++ {
				logPath := filepath.Join(dir, fmt.Sprintf("shard%d.%d.log", s, attempt))
				outPath := filepath.Join(dir, fmt.Sprintf("shard%d.%d.out", s, attempt))
				args := []string{e.R.Prop, "--tier", e.Tier, "--seed", fmt.Sprint(e.Seed)}
				if e.Only != "" {
					args = append(args, "--only", e.Only)
				}
				args = append(args, "child", fmt.Sprint(s), fmt.Sprint(nshards), fmt.Sprintf("skip=%d", skip))
				died, timedOut, sum, relayed := runOneChild(args, logPath, outPath, watchdog, extraEnv)
				mergeSummary(&oc.sum, sum)
				oc.relayed = append(oc.relayed, relayed...)
				if !died && !timedOut {
					break
				}
				n, id, open := lastInflight(logPath)
				if !open {
					// died outside a library call: harness problem, not a verdict
					oc.deaths = append(oc.deaths, map[string]any{"harness": true, "shard": s, "output": tailFile(outPath, 1500)})
					break
				}
				if timedOut {
					// re-run the in-flight case alone with a fresh watchdog
					oc.timeouts++
					one := append(append([]string{}, args[:len(args)-1]...), fmt.Sprintf("one=%d", n))
					d2, t2, sum2, rel2 := runOneChild(one, logPath+".iso", outPath+".iso", watchdog, extraEnv)
					oc.relayed = append(oc.relayed, rel2...)
					mergeSummary(&oc.sum, sum2)
					if t2 {
						oc.deaths = append(oc.deaths, map[string]any{"no_return": true, "case": id, "n": n, "shard": s, "goroutines": tailFile(outPath+".iso", 3000)})
					} else if d2 {
						oc.deaths = append(oc.deaths, map[string]any{"case": id, "n": n, "shard": s, "output": tailFile(outPath+".iso", 2500)})
					} else {
						oc.deaths = append(oc.deaths, map[string]any{"inconclusive_watchdog": true, "case": id, "n": n, "shard": s})
					}
				} else {
					oc.deaths = append(oc.deaths, map[string]any{"case": id, "n": n, "shard": s, "output": tailFile(outPath, 2500)})
				}
				skip = n + 1
			}
		}(s)
	}
	wg.Wait()
	return outs
}

func mergeSummary(dst *childSummary, src childSummary) {
	dst.Evaluations += src.Evaluations
	dst.Distinct += src.Distinct
	dst.Violations += src.Violations
	if len(dst.Samples) < 4 {
		dst.Samples = append(dst.Samples, src.Samples...)
	}
	for k, v := range src.Counters {
		dst.Counters[k] += v
	}
	if dst.Extra == nil {
		dst.Extra = map[string]any{}
	}
	for k, v := range src.Extra {
		dst.Extra[k] = v
	}
}

func tailFile(p string, n int) string {
	b, _ := os.ReadFile(p)
	return tailStr(string(b), n)
}

func runOneChild(args []string, logPath, outPath string, watchdog time.Duration, extraEnv []string) (died, timedOut bool, sum childSummary, relayed []string) {
	sum.Counters = map[string]int64{}
	of, err := os.Create(outPath)
	if err != nil {
		return true, false, sum, nil
	}
	cmd := exec.Command(os.Args[0], args...)
	cmd.Stdout, cmd.Stderr = of, of
	cmd.Env = append(append(os.Environ(), "VERIF_CHILD=1", "VERIF_CHILD_LOG="+logPath), extraEnv...)
	if err := cmd.Start(); err != nil {
		of.Close()
		return true, false, sum, nil
	}
	done := make(chan error, 1)
	go func() { done <- cmd.Wait() }()
	select {
	case err = <-done:
	case <-time.After(watchdog):
		timedOut = true
		cmd.Process.Signal(syscall.SIGQUIT) // goroutine dump into the output file
		select {
		case err = <-done:
		case <-time.After(10 * time.Second):
			cmd.Process.Kill()
			err = <-done
		}
	}
	of.Close()
	b, _ := os.ReadFile(outPath)
	got := false
	lines := strings.Split(string(b), "\n")
	for i := 0; i < len(lines); i++ {
		line := lines[i]
		if strings.HasPrefix(line, "CHILD-SUMMARY ") {
			if json.Unmarshal([]byte(strings.TrimPrefix(line, "CHILD-SUMMARY ")), &sum) == nil {
				got = true
			}
			if sum.Counters == nil {
				sum.Counters = map[string]int64{}
			}
		}
		if strings.HasPrefix(line, "VIOLATION ") || strings.HasPrefix(line, "KNOWN-FINDING:") {
			blk := line
			for i+1 < len(lines) && strings.HasPrefix(lines[i+1], "  ") {
				i++
				blk += "\n" + lines[i]
			}
			relayed = append(relayed, blk)
		}
	}
	if timedOut {
		return false, true, sum, relayed
	}
	if !got {
		return true, false, sum, relayed
	}
	_ = err
	return false, false, sum, relayed
}

// isAbsentChild reports whether this process is the "checksum services unregistered" re-run of a check.
func isAbsentChild(e *Env) bool {
	if len(e.Args) > 0 && e.Args[0] == "registry-absent-child" {
		servicesAbsent = true
		return true
	}
	return false
}

// runAbsentChild re-runs the current check in a child process that first empties the checksum registry
// (codec.Clear is public API and the generated frame codecs explicitly tolerate an absent service):
// what a property says about lengths, consumption or panics must not depend on that registry state.
func runAbsentChild(e *Env) {
	runVariantChild(e, "registry-absent-child", "absent", "rerun_with_checksum_services_unregistered", "checksum-services-unregistered")
}

// isDrainingChild reports whether this process is the "application-supplied checksum services" re-run of a
// check, and if so replaces every registered service (through the public Remove/Registry API) by one that
// computes the same function but READS the *bytes.Buffer it is given to the end, the way a service feeding a
// hash.Hash with io.Copy would.  What the encoders append must not depend on how a service treats its input.
func isDrainingChild(e *Env) bool {
	if len(e.Args) > 0 && e.Args[0] == "draining-services-child" {
		installDrainingServices()
		return true
	}
	return false
}

func runDrainingChild(e *Env) {
	runVariantChild(e, "draining-services-child", "draining", "rerun_with_services_that_read_their_input_to_the_end", "input-reading-checksum-services")
}

func runVariantChild(e *Env, mode, dirSuffix, evidenceKey, what string) {
	r := e.R
	if e.Only != "" || os.Getenv("VERIF_CHILD") != "" {
		return
	}
	dir := filepath.Join(monRoot(), ".work", r.Prop+"-"+dirSuffix)
	os.MkdirAll(dir, 0o755)
	died, timedOut, sum, relayed := runOneChild([]string{r.Prop, "--tier", "quick", "--seed", fmt.Sprint(e.Seed), mode}, filepath.Join(dir, "child.log"), filepath.Join(dir, "child.out"), 10*time.Minute, nil)
	r.Relay(relayed)
	r.AddViolations(sum.Violations)
	r.Evals(sum.Evaluations)
	r.Set(evidenceKey, map[string]any{"evaluations": sum.Evaluations, "violations": sum.Violations})
	if died || timedOut {
		out := tailFile(filepath.Join(dir, "child.out"), 1200)
		if strings.Contains(out, "panic:") || strings.Contains(out, "fatal error") {
			r.Violate(r.Prop+"/died-with-"+what, r.Prop+"/died-with-"+what, map[string]any{"output": out})
		} else {
			r.Inconclusive("re-run with " + what + " did not complete: " + out)
		}
	}
}

// watchedOutput runs a workload child under a generous wall-clock watchdog (a verdict never depends on it: when
// it fires, the child is sent SIGQUIT so that its goroutine dump lands in the captured output, and the caller
// decides from the DUMP - goroutines parked on a lock inside the library are a state observation, anything
// else is inconclusive).
func watchedOutput(r *mon.Run, cmd *exec.Cmd, thorough bool, what string) ([]byte, error) {
	limit := 8 * time.Minute
	if thorough {
		limit = 60 * time.Minute
	}
	var buf bytes.Buffer
	cmd.Stdout, cmd.Stderr = &buf, &buf
	if err := cmd.Start(); err != nil {
		return nil, err
	}
	done := make(chan error, 1)
	go func() { done <- cmd.Wait() }()
	select {
	case err := <-done:
		return buf.Bytes(), err
	case <-time.After(limit):
	}
	cmd.Process.Signal(syscall.SIGQUIT)
	var err error
	select {
	case err = <-done:
	case <-time.After(20 * time.Second):
		cmd.Process.Kill()
		err = <-done
	}
	out := buf.String()
	if i := strings.Index(out, "fin-proto-go"); i >= 0 && (strings.Contains(out, "sync.(*RWMutex)") || strings.Contains(out, "sync.(*Mutex)") || strings.Contains(out, "sync.runtime_Semacquire")) {
		lo := i - 1500
		if lo < 0 {
			lo = 0
		}
		r.Violate(r.Prop+"/workload-blocked-forever-on-a-lock", r.Prop+"/workload-blocked-forever-on-a-lock", map[string]any{"workload": what, "waited": limit.String(), "goroutine_dump": out[lo:min(len(out), lo+3000)], "observed": "no progress for the whole watchdog period and goroutines parked on a lock inside the library"})
	} else {
		r.Inconclusive(what + " did not finish within " + limit.String())
	}
	return buf.Bytes(), err
}
