package checks

import (
	"bytes"
	"fmt"
	"reflect"

	"verif/internal/gen"
	"verif/internal/schema"
	"verif/internal/val"
)

func init() { Registry["C01"] = c01 }

// tablesOf lists the discriminator tables reachable from t (directly or through bodies).
func (e *Env) tablesOf(t *schema.Type, seen map[string]bool, out *[]*schema.Table) {
	if seen[t.QName] {
		return
	}
	seen[t.QName] = true
	for _, f := range t.Fields {
		switch f.Kind {
		case "union":
			tb := e.S.Table(t.Pkg, f.Table)
			*out = append(*out, tb)
			for _, en := range tb.Entries {
				e.tablesOf(e.S.Lookup(t.Pkg, en.Type), seen, out)
			}
		case "struct", "objlist":
			e.tablesOf(e.S.Lookup(t.Pkg, f.Type), seen, out)
		}
	}
}

func hasList(e *Env, t *schema.Type, seen map[string]bool) bool {
	if seen[t.QName] {
		return false
	}
	seen[t.QName] = true
	for _, f := range t.Fields {
		switch f.Kind {
		case "list", "objlist":
			return true
		case "struct":
			if hasList(e, e.S.Lookup(t.Pkg, f.Type), seen) {
				return true
			}
		case "union":
			tb := e.S.Table(t.Pkg, f.Table)
			for _, en := range tb.Entries {
				if hasList(e, e.S.Lookup(t.Pkg, en.Type), seen) {
					return true
				}
			}
		}
	}
	return false
}

// caseOpts builds the deterministic case list of a type: n plain cases, then perKey cases for
// every registered key of every table the type uses directly, then (thorough) long-list cases.
func (e *Env) caseOpts(t *schema.Type, n, perKey int, arbitrary bool, long bool) []*gen.Opts {
	var cs []*gen.Opts
	for i := 0; i < n; i++ {
		cs = append(cs, &gen.Opts{Arbitrary: arbitrary})
	}
	for _, f := range t.Fields {
		if f.Kind != "union" {
			continue
		}
		tb := e.S.Table(t.Pkg, f.Table)
		for _, en := range tb.Entries {
			for k := 0; k < perKey; k++ {
				cs = append(cs, &gen.Opts{Arbitrary: arbitrary, NoNilBody: true, ForceKey: map[string]any{tb.QName: en.Key}})
			}
		}
	}
	if hasList(e, t, map[string]bool{}) {
		// one list well past every plausible "bulk path" threshold (1 024, 4 096, 8 192 elements / 64 KiB of data)
		cs = append(cs, &gen.Opts{Arbitrary: arbitrary, NoNilBody: true, Lens: []int{10000}, StrLens: []int{1, 3}})
	}
	for _, f := range t.Fields {
		if f.Kind == "pstr" && f.Prefix == "u32" {
			// texts behind a 32-bit length prefix: past 64 KiB, and (one type per module) past 16 MiB
			cs = append(cs, &gen.Opts{Arbitrary: arbitrary, NoNilBody: true, StrLens: []int{70000, 3}})
			if long || t.QName == "risk.RiskResult" || t.QName == "szse.Extend206302" {
				cs = append(cs, &gen.Opts{Arbitrary: arbitrary, NoNilBody: true, StrLens: []int{17<<20 + 5, 2, 0}})
			}
			break
		}
	}
	// object lists behind a 32-bit count legitimately hold more than 65 535 elements
	for _, f := range t.Fields {
		if f.Kind == "objlist" && f.Prefix == "u32" {
			cs = append(cs, &gen.Opts{Arbitrary: arbitrary, NoNilBody: true, Lens: []int{65537}}, &gen.Opts{Arbitrary: arbitrary, NoNilBody: true, Lens: []int{70001}})
		}
	}
	if long && hasList(e, t, map[string]bool{}) {
		for _, l := range []int{255, 256, 1000, 65535} {
			// long lists carry short texts, long texts sit in short lists (a 65535×65535-byte list is 4 GiB)
			cs = append(cs, &gen.Opts{Arbitrary: arbitrary, NoNilBody: true, Lens: []int{l}, StrLens: []int{0, 1, 3}})
			cs = append(cs, &gen.Opts{Arbitrary: arbitrary, NoNilBody: true, Lens: []int{1, 2}, StrLens: []int{l}})
		}
	}
	return cs
}

func c01(e *Env) {
	r := e.R
	r.Rule("case i of type T is a pure function of (seed, 'C01', T, i): a schema-guided canonical value (boundary-biased numbers and float bit patterns incl. sNaN/-0, fixed text of length 0..N over a hostile byte alphabet never starting/ending with the pad byte on the pad side, lists of 0/1/2/3/17 elements (thorough: 255/256/1000/65535), every registered discriminator key forced at least 3 times, stale length/checksum inputs). distinct_nontrivial = number of distinct structural hashes of generated values that differ from the type's zero value")
	r.Explain("Oracle: lib.Decode(lib.Encode(v)) ≡ v' where v' is v with self-computed length/checksum replaced by independently recomputed values (own byte-sum / bitwise CRC-32 over the emitted image); encode error, decode error, panic, or bytes left in the buffer also refute. ≡ is bit-exact on numbers (floats by bit pattern), byte-exact on text, nil list ≡ empty list, interface fields by dynamic type and content.")
	r.Assume("the pinned schema is used only to stay inside the canonical domain; the comparison itself is reflection over the library's own structs", "values not generated are not covered")
	types := e.Types()
	n := e.N(400, 100000)
	feats := newFeatAcc()
	perType := map[string]int{}
	var keysForced int64
	e.Par(len(types), func(i int) {
		t := types[i]
		if t.NoCodec && false {
			return
		}
		cs := e.caseOpts(t, n, 3, false, e.Thorough)
		if !e.Thorough && hasList(e, t, map[string]bool{}) {
			// exactly the largest count / length the prefixes can carry (the generator clamps to each field's own
			// prefix): "representable in their prefix" includes the maximum itself
			cs = append(cs, &gen.Opts{NoNilBody: true, Lens: []int{65535}, StrLens: []int{0, 1, 3}}, &gen.Opts{NoNilBody: true, Lens: []int{1, 2}, StrLens: []int{65535}}, &gen.Opts{NoNilBody: true, Lens: []int{255}, StrLens: []int{255}})
		}
		local := map[uint64]struct{}{}
		lf := map[string]int{}
		for ci, o := range cs {
			o.Feat = lf
			g := e.Gen(o, t.QName, ci)
			v := g.Value(t)
			if len(o.ForceKey) > 0 {
				lf["forced-key-case"]++
			}
			h := val.Hash(v)
			if !val.IsZero(v) {
				local[h] = struct{}{}
			}
			m := val.Clone(v)
			w, err, p := EncodeFresh(m)
			det := func(extra map[string]any) map[string]any {
				d := map[string]any{"type": t.QName, "case": ci, "value": val.Summary(v, 600), "bytes": val.Hex(w, 256)}
				for k, x := range extra {
					d[k] = x
				}
				return d
			}
			if p != nil {
				r.Violate("C01/encode-panic/"+t.QName, "C01/encode-panic/"+t.QName, det(map[string]any{"panic": p.Value, "stack": p.Stack}))
				continue
			}
			if err != nil {
				r.Violate("C01/encode-error/"+t.QName, "C01/encode-error/"+t.QName, det(map[string]any{"error": err.Error()}))
				continue
			}
			want := withCorrectComputed(t, v, w)
			d := e.C.New[t.QName]()
			buf := bytes.NewBuffer(append([]byte(nil), w...))
			err, p = LibDecode(d, buf)
			if p != nil {
				r.Violate("C01/decode-panic/"+t.QName, "C01/decode-panic/"+t.QName, det(map[string]any{"panic": p.Value, "stack": p.Stack}))
				continue
			}
			if err != nil {
				r.Violate("C01/decode-error/"+t.QName, "C01/decode-error/"+t.QName, det(map[string]any{"error": err.Error()}))
				continue
			}
			if diff := val.Equal(want, d); diff != "" {
				r.Violate("C01/mismatch/"+t.QName, "C01/mismatch/"+t.QName, det(map[string]any{"first_difference": diff, "decoded": val.Summary(d, 600)}))
				continue
			}
			if buf.Len() != 0 {
				r.Violate("C01/leftover/"+t.QName, "C01/leftover/"+t.QName, det(map[string]any{"left": buf.Len()}))
				continue
			}
			if ci < 2 && i%40 == 0 {
				r.Sample(map[string]any{"type": t.QName, "case": ci, "value": val.Summary(v, 300), "bytes": val.Hex(w, 96), "verdict": "round-trip ≡"})
			}
		}
		r.Evals(int64(len(cs)))
		r.DistinctMany(local)
		feats.merge(lf)
		feats.mu.Lock()
		perType[t.QName] = len(cs)
		feats.mu.Unlock()
	})
	_ = keysForced
	// ---- round trips of texts that collide under a common hash (CRC-32, FNV-1a-32, FNV-1a-64), one after the
	// other in one process: a codec that recognises "a text it has seen before" by a hash returns the wrong one.
	if e.Only == "" {
		pairs := collidingPairs(e.Seed)
		var adv int64
		for _, t := range types {
			ff := collisionField(t)
			if ff == nil {
				continue
			}
			base := e.Gen(&gen.Opts{}, t.QName, "collision").Value(t)
			for pi, pr := range pairs {
				if len(pr[0]) > ff.N {
					continue
				}
				for k, txt := range []string{pr[0], pr[1], pr[0]} {
					v := val.Clone(base)
					reflect.ValueOf(v).Elem().FieldByName(ff.Name).SetString(txt)
					w, err, p := EncodeFresh(val.Clone(v))
					if err != nil || p != nil {
						break
					}
					w = append([]byte(nil), w...)
					d := e.C.New[t.QName]()
					derr, dp := LibDecode(d, bytes.NewBuffer(w))
					adv++
					if derr != nil || dp != nil {
						break // the plain cases above report this
					}
					if diff := val.Equal(withCorrectComputed(t, v, w), d); diff != "" {
						r.Violate("C01/mismatch-after-colliding-text/"+t.QName, "C01/mismatch-after-colliding-text/"+t.QName, map[string]any{"type": t.QName, "field": ff.Name, "pair": pi, "step": k, "text": txt, "round_tripped_before_in_this_process": []string{pr[0], pr[1]}, "first_difference": diff, "note": "the two texts have equal length and equal " + pr[2]})
						break
					}
				}
			}
		}
		r.Evals(adv)
		r.Set("hash_collision_adversary", map[string]any{"colliding_pairs": len(pairs), "round_trips": adv})
	}
	r.Set("types_exercised", len(types))
	r.Set("cases_per_type_min_max", minMax(perType))
	r.Set("value_features_exercised", feats.m)
	r.Set("registered_keys_in_pinned_tables", e.totalKeys())
	_ = fmt.Sprint
}

func (e *Env) totalKeys() int {
	n := 0
	for _, tb := range e.S.Tables {
		n += len(tb.Entries)
	}
	return n
}

func minMax(m map[string]int) [2]int {
	mn, mx := -1, 0
	for _, v := range m {
		if mn < 0 || v < mn {
			mn = v
		}
		if v > mx {
			mx = v
		}
	}
	return [2]int{mn, mx}
}
