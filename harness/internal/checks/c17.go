package checks

import (
	"bytes"
	"fmt"
	"os"
	"reflect"
	"strings"
	"time"

	"github.com/xinchentechnote/fin-proto-go/codec"

	"verif/internal/bind"
	"verif/internal/gen"
	"verif/internal/schema"
	"verif/internal/val"
)

func init() { Registry["C17"] = c17 }

type ecase struct {
	kind string
	msg  any
}

// encodeCases builds the constructible values of one type that C17 quantifies over.
func encodeCases(e *Env, t *schema.Type) []ecase {
	var cs []ecase
	cs = append(cs, ecase{"zero-value", e.C.New[t.QName]()})
	if ctor := bind.Ctors[t.QName]; ctor != nil {
		cs = append(cs, ecase{"constructor-result", ctor()})
	}
	n := e.N(200, 50000)
	for ci, o := range e.caseOpts(t, n, 2, true, false) {
		if ci >= n {
			o.NoNilBody = false
		}
		g := e.Gen(o, t.QName, ci)
		cs = append(cs, ecase{"arbitrary", g.Value(t)})
	}
	// unions: nil body with every registered key and with unregistered keys; body of every member type
	for _, f := range t.Fields {
		if f.Kind != "union" {
			continue
		}
		tb := e.S.Table(t.Pkg, f.Table)
		setKey := func(m any, key any) {
			kv := reflect.ValueOf(m).Elem().FieldByName(f.Key)
			switch k := key.(type) {
			case uint64:
				kv.SetUint(k)
			case string:
				kv.SetString(k)
			}
		}
		for _, en := range tb.Entries {
			m := e.C.New[t.QName]()
			setKey(m, en.Key)
			cs = append(cs, ecase{"nil-body/registered-key", m})
		}
		g := e.Gen(&gen.Opts{}, t.QName, "unreg")
		for k := 0; k < 12; k++ {
			m := e.C.New[t.QName]()
			setKey(m, unregKey(g, tb))
			cs = append(cs, ecase{"nil-body/unregistered-key", m})
			m2 := g.Value(t)
			setKey(m2, unregKey(g, tb))
			cs = append(cs, ecase{"body/unregistered-key", m2})
		}
	}
	// frames whose body has to refuse (a list one element beyond its 16-bit count): the frame's error path runs
	for _, f := range t.Fields {
		if f.Kind != "union" || f.Key != "MsgType" {
			continue
		}
		tb := e.S.Table(t.Pkg, f.Table)
		for _, en := range tb.Entries {
			bt := e.S.Lookup(t.Pkg, en.Type)
			for _, s := range lenSites(bt) {
				if s.max > 0xFFFF {
					continue
				}
				g := e.Gen(&gen.Opts{Lens: []int{1}, StrLens: []int{2}, ForceKey: map[string]any{tb.QName: en.Key}}, t.QName, bt.QName, s.field.Name, s.what, "c17")
				v := g.Value(t)
				body := reflect.ValueOf(v).Elem().FieldByName(f.Name).Elem().Interface()
				setLen(e, bt, body, s, s.max+1, g)
				cs = append(cs, ecase{"frame-with-refusing-body:" + bt.Name + "." + s.field.Name, v})
			}
		}
		// ... and a caller-supplied body that writes a few bytes and then returns an error
		g := e.Gen(&gen.Opts{}, t.QName, "stub-body")
		v := g.Value(t)
		reflect.ValueOf(v).Elem().FieldByName(f.Name).Set(reflect.ValueOf(&failingBody{N: 7}))
		cs = append(cs, ecase{"frame-with-refusing-body:stub", v})
	}
	// nested pointer parts: each one nil in turn
	var ptrFields []string
	for _, f := range t.Fields {
		if f.Kind == "struct" && !f.Value {
			ptrFields = append(ptrFields, f.Name)
		}
	}
	for k, name := range ptrFields {
		g := e.Gen(&gen.Opts{}, t.QName, "nilpart", k)
		m := g.Value(t)
		fv := reflect.ValueOf(m).Elem().FieldByName(name)
		fv.Set(reflect.Zero(fv.Type()))
		cs = append(cs, ecase{"nil-nested-part:" + name, m})
	}
	// dense sweeps: every text length 0..2200 for each prefixed-text field and every element count 0..1100 for
	// one list field per type (fixed-size scratch buffers and "short value" fast paths fail at ONE length)
	for _, s := range lenSites(t) {
		if s.what == "text-length" || s.what == "element-text-length" {
			g := e.Gen(&gen.Opts{Lens: []int{1}, StrLens: []int{2}}, t.QName, "sweep", s.field.Name)
			for n := 0; n <= 2200; n++ {
				m := g.Value(t)
				setLen(e, t, m, s, n, g)
				cs = append(cs, ecase{fmt.Sprintf("text-length-sweep:%s", s.field.Name), m})
			}
		}
	}
	for _, s := range lenSites(t) {
		if s.what == "count" {
			g := e.Gen(&gen.Opts{Lens: []int{1}, StrLens: []int{2}}, t.QName, "sweep", s.field.Name)
			for n := 0; n <= 1100; n += 1 + n/256 {
				m := g.Value(t)
				setLen(e, t, m, s, n, g)
				cs = append(cs, ecase{fmt.Sprintf("count-sweep:%s", s.field.Name), m})
			}
			break
		}
	}
	// very long lists / texts (thorough: 70 000 elements)
	if hasList(e, t, map[string]bool{}) {
		ls := []int{300}
		if e.Thorough {
			ls = append(ls, 70000)
		}
		for _, l := range ls {
			g := e.Gen(&gen.Opts{Arbitrary: true, NoNilBody: true, Lens: []int{l}, StrLens: []int{l}}, t.QName, "long", l)
			if l > 1000 {
				g.O.StrLens = []int{3} // long lists carry short texts; long texts sit in short lists
				g2 := e.Gen(&gen.Opts{Arbitrary: true, NoNilBody: true, Lens: []int{2}, StrLens: []int{l}}, t.QName, "longtext", l)
				cs = append(cs, ecase{fmt.Sprintf("long-texts:%d", l), g2.Value(t)})
			}
			cs = append(cs, ecase{fmt.Sprintf("long-lists:%d", l), g.Value(t)})
		}
	}
	return cs
}

func unregKey(g *gen.Gen, tb *schema.Table) any {
	for {
		var k any
		switch tb.KeyKind {
		case "str":
			k = strings.TrimRight(g.Text(g.R.Intn(5)), " ")
		case "u16":
			k = g.R.U64() & 0xFFFF
		default:
			k = g.R.U64() & 0xFFFFFFFF
			if g.R.Bool() {
				k = g.R.U64() % 400000
			}
		}
		if _, reg := tb.ByKey[k]; !reg {
			return k
		}
	}
}

func c17Child(e *Env, ca childArgs) {
	r := e.R
	if os.Getenv("VERIF_NO_RLIMIT") == "" {
		limitAddressSpace(4 << 30)
	}
	log := openChildLog()
	n := -1
	kinds := map[string]int64{}
	seen := map[uint64]struct{}{}
	for ti, t := range e.Types() {
		if ti%ca.nshards != ca.shard {
			continue
		}
		for ci, c := range encodeCases(e, t) {
			n++
			if ca.one >= 0 {
				if n != ca.one {
					continue
				}
			} else if n < ca.skip {
				continue
			}
			summary := val.Summary(c.msg, 400)
			h := val.Hash(c.msg)
			// destination buffer: fresh, or one of the histories H2..H7 (earlier frames, partly consumed,
			// garbage in spare capacity, nearly full) - a panic is a panic wherever the frame starts
			hk := ci % nHist
			room := 0
			if fi := frameOf(t); fi != nil {
				room = fi.hdr
			}
			buf, _ := mkHistory(hk, gen.NewRng(e.Seed, "C17-hist", t.QName, ci), bytes.Repeat([]byte{0xAB}, 300), room)
			if hk == 2 {
				kinds["buffer:earlier-content-near-capacity"]++
			}
			log.begin(n, fmt.Sprintf("%s#%d %s buffer=%s value=%s", t.QName, ci, c.kind, histNames[hk], summary))
			err, p := LibEncode(c.msg, buf)
			log.end(n)
			r.Evals(1)
			kinds[c.kind]++
			if p != nil {
				r.Violate("C17/encode-panic/"+t.QName+"/"+strings.SplitN(c.kind, ":", 2)[0], "C17/encode-panic/"+t.QName, map[string]any{"type": t.QName, "case": ci, "kind": c.kind, "buffer_history": histNames[ci%nHist], "value": summary, "panic": p.Value, "stack": p.Stack})
				continue
			}
			if err != nil {
				kinds["returned-error"]++
			} else {
				kinds["returned-bytes"]++
			}
			if _, ok := seen[h]; !ok {
				seen[h] = struct{}{}
			}
			if ci == 1 && ti%60 == 0 {
				r.Sample(map[string]any{"type": t.QName, "kind": c.kind, "value": val.Summary(c.msg, 160), "result": errStr(err), "bytes": buf.Len()})
			}
		}
	}
	r.DistinctAdd(int64(len(seen)))
	for k, v := range kinds {
		r.Count("kind:"+k, v)
	}
}

// c17RegistryChild encodes every checksummed frame several times in a row while its checksum service is
// unregistered (codec.Remove / codec.Clear are public API and the generated encoders explicitly tolerate
// an absent service): still bytes or an error, never a panic.
func c17RegistryChild(e *Env) {
	r := e.R
	for round, how := range []string{"Remove", "Clear"} {
		for _, t := range e.S.Order {
			fi := frameOf(t)
			if fi == nil || fi.sumField == "" {
				continue
			}
			if how == "Remove" {
				codec.Remove(fi.alg)
			} else {
				codec.Clear()
			}
			g := &gen.Gen{S: e.S, C: e.C, R: gen.NewRng(e.Seed, "C17-registry", t.QName, round), O: &gen.Opts{}}
			for k := 0; k < 4; k++ {
				v := g.Value(t)
				err, p := LibEncode(v, new(bytes.Buffer))
				r.Evals(1)
				r.DistinctAdd(1)
				if p != nil {
					r.Violate("C17/encode-panic-with-service-unregistered/"+t.QName, "C17/encode-panic-with-service-unregistered/"+t.QName, map[string]any{"type": t.QName, "registry_state": how + "(" + fi.alg + ") before the encodes", "encode_number": k + 1, "panic": p.Value, "stack": p.Stack})
					break
				}
				_ = err
			}
		}
	}
	r.Sample(map[string]any{"scenario": "checksum service removed / registry cleared, then each checksummed frame encoded 4 times in a row", "verdict": "returned bytes or an error every time"})
}

func c17(e *Env) {
	if len(e.Args) > 0 && e.Args[0] == "registry-child" {
		c17RegistryChild(e)
		return
	}
	ca := parseChildArgs(e.Args)
	if ca.isChild {
		c17Child(e, ca)
		return
	}
	r := e.R
	r.Rule("every type × {zero value, constructor result, arbitrary values (numbers of any bit pattern, text of any length incl. over-long and all-pad, lists of 0..17 elements, nil nested parts, nil/mismatched bodies; thorough: 70 000-element lists), every registered key with a nil body/extension, unregistered keys with and without a body, each nested pointer part nil in turn, every text length 0..2200 of every prefixed-text field, element counts 0..1100 of one list field per type, frames whose body must refuse (a list one element beyond its 16-bit count; a caller-supplied body returning an error)} × destination buffer history H1..H9 (fresh, random content, earlier frames filling most of the capacity, partly consumed, drained, garbage in spare capacity, header-sized spare capacity); plus every checksummed frame encoded four times in a row while its checksum service is unregistered (Remove / Clear); values with nil list elements or typed-nil bodies are excluded, as the property says. distinct_nontrivial = distinct structural hashes of the values encoded")
	r.Explain("Oracle: Encode returns normally — nil error with bytes appended, or a non-nil error; a recovered panic or the death of the (child) process is a violation, with the pre-logged in-flight value as witness.")
	r.Assume("values not generated are not covered")
	outs := runChildren(e, e.Workers, 300*time.Second)
	for _, oc := range outs {
		r.Evals(oc.sum.Evaluations)
		r.DistinctAdd(oc.sum.Distinct)
		r.AddViolations(oc.sum.Violations)
		r.Relay(oc.relayed)
		for _, sm := range oc.sum.Samples {
			r.Sample(sm)
		}
		for k, v := range oc.sum.Counters {
			r.Count(k, v)
		}
		for _, d := range oc.deaths {
			switch {
			case d["harness"] == true:
				r.Inconclusive(fmt.Sprintf("child %d died outside a library call: %v", oc.shard, d["output"]))
			case d["inconclusive_watchdog"] == true:
				r.Inconclusive(fmt.Sprintf("watchdog fired on shard %d but the in-flight case returned when run alone", oc.shard))
			default:
				typ := strings.SplitN(fmt.Sprint(d["case"]), "#", 2)[0]
				d["type"] = typ
				r.Violate("C17/process-died/"+typ, "C17/process-died/"+typ, d)
			}
		}
	}
	// one more child: frames encoded while their checksum service is unregistered
	if e.Only == "" {
		dir := monRoot() + "/.work/C17-children"
		died, timedOut, sum, relayed := runOneChild([]string{"C17", "--tier", e.Tier, "--seed", fmt.Sprint(e.Seed), "registry-child"}, dir+"/registry.log", dir+"/registry.out", 120*time.Second, nil)
		r.Relay(relayed)
		r.Evals(sum.Evaluations)
		r.DistinctAdd(sum.Distinct)
		r.AddViolations(sum.Violations)
		for _, sm := range sum.Samples {
			r.Sample(sm)
		}
		if died || timedOut {
			r.Inconclusive("registry-state child did not complete: " + tailFile(dir+"/registry.out", 400))
		}
	}
	r.Sample(map[string]any{"kinds": []string{"zero-value", "constructor-result", "arbitrary", "nil-body/registered-key", "nil-body/unregistered-key", "body/unregistered-key", "nil-nested-part:<field>", "long-lists:<n>"}})
}
