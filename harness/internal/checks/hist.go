package checks

import (
	"bytes"

	"verif/internal/gen"
)

// Buffer histories H1..H8 of DESIGN §2.3.
const nHist = 9

var histNames = []string{"H1-empty", "H2-random-content", "H3-earlier-frames", "H4-partly-consumed", "H5-drained-reused", "H6-garbage-in-spare-capacity", "H7-cap-equals-len", "H8-full-array-mostly-consumed", "H9-capacity-ends-inside-the-last-bytes-of-this-encoding"}

// mkHistory builds a buffer with the given history.  earlier is a valid encoding used for H3
// (may be nil, then random bytes are used); room is the spare capacity left by H7.  It returns the buffer and a copy of its unread bytes.
func mkHistory(h int, r *gen.Rng, earlier []byte, room int) (*bytes.Buffer, []byte) {
	var buf *bytes.Buffer
	switch h {
	case 0:
		buf = new(bytes.Buffer)
	case 1:
		buf = new(bytes.Buffer)
		buf.Write(r.Bytes(1 + r.Intn(200)))
	case 2:
		buf = new(bytes.Buffer)
		if len(earlier) == 0 {
			earlier = r.Bytes(24)
		}
		for k := 0; k <= r.Intn(3); k++ {
			buf.Write(earlier)
		}
	case 3:
		buf = new(bytes.Buffer)
		n := 2 + r.Intn(300)
		buf.Write(r.Bytes(n))
		buf.Next(1 + r.Intn(n-1)) // 1..n-1 consumed, at least one byte left unread
	case 4:
		buf = new(bytes.Buffer)
		n := 1 + r.Intn(300)
		buf.Write(r.Bytes(n))
		tmp := make([]byte, n)
		buf.Read(tmp) // fully drained: the buffer resets its offsets on the next write
	case 5:
		n := r.Intn(64)
		c := n + 1 + r.Intn(4096)
		b := r.Bytes(c) // garbage everywhere, including the spare capacity
		buf = bytes.NewBuffer(b[:n:c])
	case 6:
		// exactly `room` spare bytes: a frame header (through its length placeholder) still fits,
		// the body write then reallocates the backing array before the placeholder is patched
		n := 1 + r.Intn(64)
		b := r.Bytes(n + room)
		buf = bytes.NewBuffer(b[: n : n+room])
	case 8:
		// `room` spare bytes where the caller passes (length of this encoding - 1..4): everything fits except the
		// last few bytes, so the very last write (a frame trailer) reallocates the array
		n := r.Intn(48)
		if room < 0 {
			room = 0
		}
		b := r.Bytes(n + room)
		buf = bytes.NewBuffer(b[: n : n+room])
	case 7:
		// a small backing array that is completely full and more than half consumed: the next write makes
		// bytes.Buffer SLIDE the unread bytes to the front of the same array instead of reallocating
		n := 32 + r.Intn(97)
		b := r.Bytes(n)
		buf = bytes.NewBuffer(b[:n:n])
		buf.Next(n/2 + 1 + r.Intn(n/2-2))
	}
	return buf, append([]byte(nil), buf.Bytes()...)
}
