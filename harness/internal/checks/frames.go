package checks

import (
	"bytes"
	"errors"
	"fmt"
	"reflect"
	"strings"

	"github.com/xinchentechnote/fin-proto-go/codec"

	"verif/internal/gen"
	"verif/internal/ref"
	"verif/internal/schema"
	"verif/internal/val"
)

func init() {
	Registry["C04"] = func(e *Env) { frameCheck(e, false) }
	Registry["C05"] = func(e *Env) { frameCheck(e, true) }
}

// frameObs is one observed frame encode.
type frameObs struct {
	t        *schema.Type
	fi       *frameInfo
	key      any
	bodyKind string
	hist     int
	stale    uint64
	frame    any    // frame object after Encode
	pre      []byte // unread buffer content before
	after    []byte // unread buffer content after
	a        []byte // appended bytes
	body     any    // body object given to the frame (nil if absent)
	err      error
	caseID   string
}

var bodyKinds = []string{"zero", "canonical", "long-variable-parts", "absent", "member-type-of-another-key", "over-long-and-pad-terminated-texts"}

// frameWorkload drives every self-measuring frame type through key × body kind × history × stale
// caller values and hands each observation to visit.
func frameWorkload(e *Env, needSum bool, reps int, visit func(o *frameObs)) {
	var frames []*schema.Type
	for _, t := range e.Types() {
		fi := frameOf(t)
		if fi == nil || (needSum && fi.sumField == "") {
			continue
		}
		frames = append(frames, t)
	}
	type job struct {
		t   *schema.Type
		en  schema.Entry
		tb  *schema.Table
		rep int
	}
	var jobs []job
	for _, t := range frames {
		fi := frameOf(t)
		var uf *schema.Field
		for i := range t.Fields {
			if t.Fields[i].Name == fi.union {
				uf = &t.Fields[i]
			}
		}
		tb := e.S.Table(t.Pkg, uf.Table)
		for _, en := range tb.Entries {
			for rep := 0; rep < reps; rep++ {
				jobs = append(jobs, job{t, en, tb, rep})
			}
		}
	}
	staleVals := []uint64{0, 4, 0xFFFFFFFF, 0, 0}
	const nStale = 5 // index 3 = random, index 4 = already the CORRECT length / checksum (re-encode, forwarded frame)
	e.Par(len(jobs), func(ji int) {
		j := jobs[ji]
		t, fi := j.t, frameOf(j.t)
		bt := e.S.Lookup(t.Pkg, j.en.Type)
		for bk, bkName := range bodyKinds {
			for h := 0; h < nHist; h++ {
				for si := 0; si < nStale; si++ {
					caseID := fmt.Sprintf("%s/key=%v/%s/%s/stale%d/rep%d", t.QName, j.en.Key, bkName, histNames[h], si, j.rep)
					rng := gen.NewRng(e.Seed, e.R.Prop, caseID)
					g := &gen.Gen{S: e.S, C: e.C, R: rng, O: &gen.Opts{}}
					var body any
					switch bk {
					case 0:
						body = e.C.New[bt.QName]()
					case 1:
						body = g.Value(bt)
					case 2:
						g.O = &gen.Opts{Lens: []int{17, 255}, StrLens: []int{1000, 5000}}
						body = g.Value(bt)
					case 5:
						// texts longer than their fields (cut on write), texts ending in pad bytes, all-pad texts
						g.O = &gen.Opts{Arbitrary: true, NoNilBody: true}
						body = g.Value(bt)
					case 4:
						// the frame measures what the body emits, whatever the discriminator says it should be
						other := j.tb.Entries[rng.Intn(len(j.tb.Entries))]
						body = g.Value(e.S.Lookup(t.Pkg, other.Type))
					}
					frame := e.C.New[t.QName]()
					fv := reflect.ValueOf(frame).Elem()
					for _, f := range t.Fields {
						x := fv.FieldByName(f.Name)
						switch {
						case f.Name == fi.union:
							if body != nil {
								x.Set(reflect.ValueOf(body))
							}
						case f.Kind == "bodylen" || f.Kind == "checksum":
							st := staleVals[si]
							if si == 3 {
								st = rng.U64()
							}
							gen.SetScalarBits(x, f.Prefix, st)
						default:
							gen.SetScalarBits(x, f.Kind, g.ScalarBits(f.Kind))
						}
					}
					// discriminator
					gen.SetScalarBits(fv.FieldByName("MsgType"), kindOfField(t, "MsgType"), j.en.Key.(uint64))
					if si == 4 {
						// learn the correct computed values from the reference interpreter and hand them in as the caller's values
						if rb, err := e.C.Encode(t, val.Clone(frame)); err == nil && len(rb) >= fi.hdr+fi.trailer() {
							gen.SetScalarBits(fv.FieldByName(fi.lenField), fi.lenKind, uint64(len(rb)-fi.hdr-fi.trailer()))
							if fi.sumField != "" {
								x, _ := getIntAt(rb, len(rb)-fi.trailer(), fi.trailer(), t.LE)
								gen.SetScalarBits(fv.FieldByName(fi.sumField), fi.sumKind, x)
							}
						}
					}
					var earlier []byte
					room := fi.hdr
					if h == 2 || h == 8 {
						earlier, _, _ = EncodeFresh(val.Clone(frame))
						if h == 8 {
							room = len(earlier) - 1 - rng.Intn(4)
						}
					}
					buf, pre := mkHistory(h, rng, earlier, room)
					err, p := LibEncode(frame, buf)
					o := &frameObs{t: t, fi: fi, key: j.en.Key, bodyKind: bkName, hist: h, frame: frame, pre: pre, body: body, err: err, caseID: caseID}
					o.stale = staleVals[si]
					if p != nil {
						e.R.Violate(e.R.Prop+"/encode-panic/"+t.QName, e.R.Prop+"/encode-panic/"+t.QName, map[string]any{"type": t.QName, "case": caseID, "panic": p.Value, "stack": p.Stack})
						continue
					}
					o.after = buf.Bytes()
					if len(o.after) >= len(pre) {
						o.a = o.after[len(pre):]
					}
					visit(o)
				}
			}
		}
	})
}

func kindOfField(t *schema.Type, name string) string {
	for _, f := range t.Fields {
		if f.Name == name {
			return f.Kind
		}
	}
	return ""
}

func getIntAt(b []byte, off, w int, le bool) (uint64, bool) {
	if off < 0 || off+w > len(b) {
		return 0, false
	}
	var x uint64
	for i := 0; i < w; i++ {
		sh := uint(8 * i)
		if !le {
			sh = uint(8 * (w - 1 - i))
		}
		x |= uint64(b[off+i]) << sh
	}
	return x, true
}

func fieldBits(msg any, name string) uint64 {
	v := reflect.ValueOf(msg).Elem().FieldByName(name)
	if v.CanUint() {
		return v.Uint()
	}
	return uint64(uint32(v.Int()))
}

func frameCheck(e *Env, sum bool) {
	r := e.R
	prop := r.Prop
	if isAbsentChild(e) {
		codec.Clear()
	}
	isDrainingChild(e)
	if !sum {
		r.Rule("every self-measuring frame type (SseBinary, SzseBinary, RcBinary, RootPacket) × every registered message type of its table × body kind {zero, canonical, long variable-length parts, absent, member type of another key, arbitrary texts (longer than their fields, pad-terminated, all-pad)} × buffer history H1..H9 (empty, random content, earlier frames, partly consumed, drained and reused, garbage in spare capacity, exactly header-sized spare capacity so that the backing array is reallocated between the length placeholder and its patch, full array mostly consumed so that the buffer slides, capacity ending inside the last bytes of this encoding) × caller-supplied length/checksum {0, 4, 0xFFFFFFFF, random, already correct}; thorough adds frames > 8 MiB. distinct_nontrivial = distinct (type,key,body kind,history,stale) combinations whose body is non-empty")
		r.Explain("Oracle: the length token found in the appended bytes at the schema position (SSE @12, SZSE @4, risk @8: big-endian u32; sample root @2: little-endian u32) == number of appended bytes − header − trailer == the frame object's length field after Encode == length of the reference encoder's rendering of the body.")
	} else {
		r.Rule("every checksummed frame type (SseBinary, SzseBinary, RootPacket) × every registered message type × body kind × buffer history H1..H9 × stale caller-supplied values, as for C04; thorough adds frames > 8 MiB with many 0xFF bytes. distinct_nontrivial = distinct combinations whose prior buffer content was non-empty")
		r.Explain("Oracle: trailer (last 4 appended bytes, module byte order) == the frame object's Checksum after Encode == own implementation of the exchange algorithm (byte sum mod 256 for SSE/SZSE, bitwise reflected CRC-32 for sample) over exactly the appended bytes from the first header byte through the last body byte — i.e. including the corrected length field and excluding whatever was in the buffer before.")
	}
	r.Assume("frame positions come from the pinned schema", "the checksum services are registered under their built-in names (start-up state)")
	reps := e.N(3, 240)
	byHist := newFeatAcc()
	if sum && e.Only == "" {
		// the process has already used every other codec of the library (a gateway speaks several protocols in
		// one process): each of the 170 types is encoded and decoded once, frames also with a zero checksum field,
		// before the checksummed frames are judged
		for _, t := range e.S.Order {
			for k := 0; k < 2; k++ {
				v := e.Gen(&gen.Opts{}, "warm-up", t.QName, k).Value(t)
				if f := reflect.ValueOf(v).Elem().FieldByName("Checksum"); f.IsValid() && k == 0 {
					f.Set(reflect.Zero(f.Type()))
				}
				if w, err, p := EncodeFresh(v); err == nil && p == nil {
					LibDecode(e.C.New[t.QName](), bytes.NewBuffer(append([]byte(nil), w...)))
				}
			}
		}
	}
	frameWorkload(e, sum, reps, func(o *frameObs) {
		t, fi := o.t, o.fi
		r.Evals(1)
		det := func(extra map[string]any) map[string]any {
			d := map[string]any{"type": t.QName, "case": o.caseID, "history": histNames[o.hist], "body_kind": o.bodyKind, "prior_unread_bytes": len(o.pre), "appended": val.Hex(o.a, 96)}
			for k, x := range extra {
				d[k] = x
			}
			return d
		}
		if o.err != nil {
			// a body whose own extension cannot be filled (zero-valued extended message: empty application id)
			// legitimately refuses to encode; the reference interpreter says so too
			if o.body != nil {
				if _, rerr := e.C.Encode(e.C.TypeOf(o.body), val.Clone(o.body)); errors.Is(rerr, ref.ErrUnknownKey) {
					byHist.merge(map[string]int{"refused:body-extension-unregistered": 1})
					return
				}
			}
			r.Violate(prop+"/encode-error/"+t.QName, prop+"/encode-error/"+t.QName, det(map[string]any{"error": o.err.Error()}))
			return
		}
		if len(o.a) < fi.hdr+fi.trailer() {
			r.Violate(prop+"/short-frame/"+t.QName, prop+"/short-frame/"+t.QName, det(nil))
			return
		}
		byHist.merge(map[string]int{histNames[o.hist]: 1, "body:" + o.bodyKind: 1, "frame:" + t.QName: 1})
		bodyLen := len(o.a) - fi.hdr - fi.trailer()
		if !sum {
			tok, _ := getIntAt(o.a, fi.lenOff, 4, t.LE)
			obj := fieldBits(o.frame, fi.lenField)
			var refBody int
			if o.body != nil {
				rb, err := e.C.Encode(e.C.TypeOf(o.body), o.body)
				if err != nil {
					return
				}
				refBody = len(rb)
			}
			if bodyLen > 0 {
				r.Distinct(val.Hash(o.caseID))
			}
			if tok != uint64(bodyLen) || obj != uint64(bodyLen) || refBody != bodyLen {
				r.Violate(prop+"/length/"+t.QName+"/"+histNames[o.hist], prop+"/length/"+t.QName, det(map[string]any{
					"length_token_on_wire": tok, "body_bytes_emitted": bodyLen, "object_length_field_after_encode": obj, "reference_body_length": refBody}))
				return
			}
			if r.NumSamples() < 6 && o.hist == 3 && o.bodyKind == "canonical" {
				r.Sample(map[string]any{"case": o.caseID, "prior_unread_bytes": len(o.pre), "appended": val.Hex(o.a, 48), "length_token": tok, "body_bytes": bodyLen})
			}
			return
		}
		// ---- checksum
		w := fi.trailer()
		tok, _ := getIntAt(o.a, len(o.a)-w, w, t.LE)
		obj := fieldBits(o.frame, fi.sumField)
		want, _ := ref.Checksum(fi.alg, o.a[:len(o.a)-w])
		if len(o.pre) > 0 {
			r.Distinct(val.Hash(o.caseID))
			byHist.merge(map[string]int{"frames-with-nonempty-prior-buffer": 1})
		}
		// the corrected length must be what the checksum saw
		ltok, _ := getIntAt(o.a, fi.lenOff, 4, t.LE)
		if tok != want || obj != want {
			whole, _ := ref.Checksum(fi.alg, o.after[:len(o.after)-w])
			hint := ""
			if whole == tok && len(o.pre) > 0 {
				hint = "the emitted value equals the checksum of the WHOLE unread buffer (earlier bytes included)"
			}
			r.Violate(prop+"/checksum/"+t.QName+"/"+histNames[o.hist], prop+"/checksum/"+t.QName, det(map[string]any{
				"trailer_on_wire": fmt.Sprintf("%#x", tok), "object_checksum_after_encode": fmt.Sprintf("%#x", obj), "expected_" + fi.alg: fmt.Sprintf("%#x", want), "hint": hint, "length_token": ltok}))
			return
		}
		if r.NumSamples() < 6 && o.hist == 2 && o.bodyKind == "canonical" {
			r.Sample(map[string]any{"case": o.caseID, "prior_unread_bytes": len(o.pre), "appended": val.Hex(o.a, 48), "trailer": fmt.Sprintf("%#x", tok), "own_" + fi.alg: fmt.Sprintf("%#x", want)})
		}
	})
	if sum && e.Only == "" {
		specialChecksumValues(e)
	}
	if e.Only == "" {
		callerSuppliedBodies(e, sum)
	}
	if e.Thorough || (sum && e.Only == "") {
		// frames > 8 MiB of 0xFF: where a 32-bit running sum that is reduced too late overflows (quick: checksum check only)
		bigFrames(e, sum)
	}
	if !sum && !isAbsentChild(e) {
		runAbsentChild(e) // the length field must be right whether or not a checksum service is registered
	}
	runDrainingChild(e) // ... and whatever an application-supplied service does with the buffer it is handed
	r.Set("frames_by_history_body_and_type", byHist.m)
	if sum && e.Only == "" && byHist.m["frames-with-nonempty-prior-buffer"] == 0 {
		r.Inconclusive("no frame was encoded behind earlier buffer content")
	}
}

// specialChecksumValues builds sample RootPacket frames whose CORRECT CRC-32 is a special value — 0, 0xFFFFFFFF,
// 1, the stale value the caller left in the field — by solving for four payload bytes (CRC-32 is affine over
// GF(2)), so that "0 means nothing was computed" style sentinels are exercised.  Byte-sum frames reach every
// value 0..255 by chance.
func specialChecksumValues(e *Env) {
	r := e.R
	t := e.S.Types["sample.RootPacket"]
	if t == nil {
		return
	}
	fi := frameOf(t)
	solved := 0
	for k, target := range []uint32{0, 0xFFFFFFFF, 1, 0x80000000, 0xDEADBEEF, 0} {
		g := e.Gen(&gen.Opts{ForceKey: map[string]any{"sample.RootPacketMsgType": uint64(1)}}, "crc-special", k)
		frame := g.Value(t)
		fv := reflect.ValueOf(frame).Elem()
		body := fv.FieldByName("Payload").Elem().Elem()
		setU32 := func(x uint32) { body.FieldByName("FieldU32").SetUint(uint64(x)) }
		crcOf := func() uint32 {
			img, err := e.C.Encode(t, val.Clone(frame))
			if err != nil || len(img) < 4 {
				return 0
			}
			return uint32(ref.CRC32(img[:len(img)-4]))
		}
		setU32(0)
		base := crcOf()
		var cols [32]uint32
		for i := 0; i < 32; i++ {
			setU32(1 << uint(i))
			cols[i] = crcOf() ^ base
		}
		// Gaussian elimination over GF(2): find x with XOR_{i in x} cols[i] == target ^ base
		want := target ^ base
		type row struct{ v, mask uint32 }
		var basis []row
		for i := 0; i < 32; i++ {
			v, m := cols[i], uint32(1)<<uint(i)
			for _, b := range basis {
				if v^b.v < v {
					v, m = v^b.v, m^b.mask
				}
			}
			if v != 0 {
				basis = append(basis, row{v, m})
			}
		}
		var x uint32
		for _, b := range basis {
			if want^b.v < want {
				want, x = want^b.v, x^b.mask
			}
		}
		if want != 0 {
			continue
		}
		setU32(x)
		if crcOf() != target {
			continue
		}
		solved++
		stale := uint32(0x11111111)
		if k == 5 {
			stale = 0 // correct value 0 and the caller also left 0
		}
		fv.FieldByName("Checksum").SetUint(uint64(stale))
		for h := 0; h < nHist; h++ {
			m := val.Clone(frame)
			fresh, _ := e.C.Encode(t, val.Clone(frame))
			buf, pre := mkHistory(h, g.R, fresh, fi.hdr)
			err, p := LibEncode(m, buf)
			r.Evals(1)
			if err != nil || p != nil || buf.Len() < len(pre)+4 {
				r.Violate("C05/checksum/sample.RootPacket/special-value", "C05/checksum/sample.RootPacket", map[string]any{"type": t.QName, "error": fmt.Sprint(err, p)})
				break
			}
			a := buf.Bytes()[len(pre):]
			tok, _ := getIntAt(a, len(a)-4, 4, true)
			obj := fieldBits(m, "Checksum")
			if tok != uint64(target) || obj != uint64(target) {
				r.Violate("C05/checksum/sample.RootPacket/special-value", "C05/checksum/sample.RootPacket", map[string]any{"type": t.QName, "history": histNames[h], "correct_CRC32_of_this_frame": fmt.Sprintf("%#x", target), "stale_caller_value": fmt.Sprintf("%#x", stale), "trailer_on_wire": fmt.Sprintf("%#x", tok), "object_checksum_after_encode": fmt.Sprintf("%#x", obj), "appended": val.Hex(a, 64)})
				break
			}
			r.Distinct(val.Hash(fmt.Sprint("crc-special", k, h)))
		}
	}
	r.Set("frames_whose_correct_CRC32_is_a_special_value(0,0xffffffff,1,...)", solved)
}

// bigFrames encodes frames larger than 8 MiB (SZSE Extend206302-style texts, risk texts) behind prior content.
func bigFrames(e *Env, sum bool) {
	r := e.R
	type spec struct {
		frame, body string
		key         uint64
	}
	var specs []spec
	for _, t := range e.Types() {
		fi := frameOf(t)
		if fi == nil || (sum && fi.sumField == "") {
			continue
		}
		var uf *schema.Field
		for i := range t.Fields {
			if t.Fields[i].Name == fi.union {
				uf = &t.Fields[i]
			}
		}
		tb := e.S.Table(t.Pkg, uf.Table)
		for _, en := range tb.Entries {
			bt := e.S.Lookup(t.Pkg, en.Type)
			for _, f := range bt.Fields {
				if f.Kind == "pstr" && f.Prefix == "u32" {
					specs = append(specs, spec{t.QName, bt.QName, en.Key.(uint64)})
					break
				}
			}
		}
	}
	big := 0
	for si, s := range specs {
		if si >= 6 || (!e.Thorough && si >= 2) {
			break
		}
		t := e.S.Types[s.frame]
		bt := e.S.Types[s.body]
		fi := frameOf(t)
		body := e.C.New[bt.QName]()
		bv := reflect.ValueOf(body).Elem()
		for _, f := range bt.Fields {
			if f.Kind == "pstr" && f.Prefix == "u32" {
				bv.FieldByName(f.Name).SetString(strings.Repeat("\xff", 9<<20))
				break
			}
		}
		frame := e.C.New[t.QName]()
		fv := reflect.ValueOf(frame).Elem()
		fv.FieldByName(fi.union).Set(reflect.ValueOf(body))
		gen.SetScalarBits(fv.FieldByName("MsgType"), kindOfField(t, "MsgType"), s.key)
		buf := new(bytes.Buffer)
		buf.Write([]byte("earlier bytes"))
		pre := append([]byte(nil), buf.Bytes()...)
		err, p := LibEncode(frame, buf)
		r.Evals(1)
		if err != nil || p != nil {
			r.Violate(r.Prop+"/big-frame-encode/"+t.QName, r.Prop+"/big-frame-encode/"+t.QName, map[string]any{"type": t.QName, "error": fmt.Sprint(err, p)})
			continue
		}
		a := buf.Bytes()[len(pre):]
		bodyLen := len(a) - fi.hdr - fi.trailer()
		if !sum {
			tok, _ := getIntAt(a, fi.lenOff, 4, t.LE)
			if tok != uint64(bodyLen) || fieldBits(frame, fi.lenField) != uint64(bodyLen) {
				r.Violate(r.Prop+"/length/"+t.QName+"/big", r.Prop+"/length/"+t.QName, map[string]any{"type": t.QName, "length_token": tok, "body_bytes": bodyLen})
			}
		} else {
			w := fi.trailer()
			tok, _ := getIntAt(a, len(a)-w, w, t.LE)
			want, _ := ref.Checksum(fi.alg, a[:len(a)-w])
			if tok != want || fieldBits(frame, fi.sumField) != want {
				r.Violate(r.Prop+"/checksum/"+t.QName+"/big", r.Prop+"/checksum/"+t.QName+"/big", map[string]any{"type": t.QName, "trailer": fmt.Sprintf("%#x", tok), "expected": fmt.Sprintf("%#x", want), "frame_bytes": len(a)})
			}
		}
		big++
	}
	r.Set("frames_larger_than_8MiB", big)
}

// plainBody is a caller-supplied body (codec.BinaryCodec is a public interface) that writes N arbitrary bytes.
type plainBody struct{ N int }

func (b *plainBody) Encode(buf *bytes.Buffer) error {
	if b.N > 1<<20 {
		// a very large body of 0xFF bytes: byte sums kept in 32 bits overflow beyond 8 421 504 of them
		buf.Write(bytes.Repeat([]byte{0xFF}, b.N))
		return nil
	}
	for i := 0; i < b.N; i++ {
		buf.WriteByte(byte(0xA0 + i%7))
	}
	return nil
}
func (b *plainBody) Decode(*bytes.Buffer) error { return nil }

// callerSuppliedBodies: "whatever the body".  Every self-measuring frame type carries (i) a body type of the
// caller's own that writes N bytes, (ii) one that writes N bytes and then REFUSES.  For (i) the usual invariants
// must hold.  For (ii) the frame encode may fail - but if it claims success (nil), what it appended is presented
// as a valid frame and must satisfy the same invariants (length word == bytes that follow; checksum over them).
func callerSuppliedBodies(e *Env, sum bool) {
	r := e.R
	prop := r.Prop
	obs := map[string]int{}
	for _, t := range e.Types() {
		fi := frameOf(t)
		if fi == nil || fi.union == "" || (sum && fi.sumField == "") {
			continue
		}
		rng := gen.NewRng(e.Seed, prop, "caller-bodies", t.QName)
		for h := 0; h < nHist; h++ {
			ns := []int{0, 1, 7, 300}
			if sum && (h == 0 || h == 2) {
				ns = append(ns, 8421505+4096) // > 8 MiB of 0xFF (checksum check only: the sum must be reduced as it goes)
			}
			for _, n := range ns {
				for _, refuse := range []bool{false, true} {
					if refuse && n > 1<<20 {
						continue
					}
					frame := e.C.New[t.QName]()
					fv := reflect.ValueOf(frame).Elem()
					var body any = &plainBody{N: n}
					if refuse {
						body = &failingBody{N: n}
					}
					fv.FieldByName(fi.union).Set(reflect.ValueOf(body))
					gen.SetScalarBits(fv.FieldByName(fi.lenField), fi.lenKind, rng.U64())
					if fi.sumField != "" {
						gen.SetScalarBits(fv.FieldByName(fi.sumField), fi.sumKind, rng.U64())
					}
					buf, _ := mkHistory(h, rng, nil, fi.hdr)
					pre := append([]byte(nil), buf.Bytes()...)
					err, p := LibEncode(frame, buf)
					r.Evals(1)
					det := map[string]any{"type": t.QName, "history": histNames[h], "body": fmt.Sprintf("%T{N:%d}", body, n), "prior_unread_bytes": len(pre)}
					if p != nil {
						continue // C17's business
					}
					if err != nil {
						if !refuse {
							det["error"] = err.Error()
							r.Violate(prop+"/encode-error-with-caller-supplied-body/"+t.QName, prop+"/encode-error/"+t.QName, det)
						} else {
							obs["refusing-body:frame-encode-failed(as it may)"]++
						}
						continue
					}
					after := buf.Bytes()
					if len(after) < len(pre)+fi.hdr+fi.trailer() {
						det["appended"] = val.Hex(after[min(len(pre), len(after)):], 64)
						r.Violate(prop+"/short-frame/"+t.QName, prop+"/short-frame/"+t.QName, det)
						continue
					}
					a := after[len(pre):]
					det["appended"] = val.Hex(a, 64)
					bodyLen := len(a) - fi.hdr - fi.trailer()
					if refuse {
						obs["refusing-body:frame-encode-claimed-success"]++
						det["note"] = "the body's Encode returned an error, the frame's Encode returned nil: what it appended is thereby presented as a valid frame"
					} else {
						obs["plain-caller-body-frames"]++
					}
					if !sum {
						tok, _ := getIntAt(a, fi.lenOff, 4, t.LE)
						obj := fieldBits(frame, fi.lenField)
						if tok != uint64(bodyLen) || obj != uint64(bodyLen) || (!refuse && bodyLen != n) {
							det["length_token_on_wire"], det["body_bytes_emitted"], det["object_length_field_after_encode"] = tok, bodyLen, obj
							r.Violate(prop+"/length-with-caller-supplied-body/"+t.QName, prop+"/length/"+t.QName, det)
						}
						continue
					}
					w := fi.trailer()
					tok, _ := getIntAt(a, len(a)-w, w, t.LE)
					want, _ := ref.Checksum(fi.alg, a[:len(a)-w])
					if servicesAbsent {
						continue
					}
					if obj := fieldBits(frame, fi.sumField); tok != want || obj != want {
						det["trailer_on_wire"], det["object_checksum_after_encode"], det["expected"] = fmt.Sprintf("%#x", tok), fmt.Sprintf("%#x", obj), fmt.Sprintf("%#x", want)
						r.Violate(prop+"/checksum-with-caller-supplied-body/"+t.QName, prop+"/checksum/"+t.QName, det)
					}
				}
			}
		}
	}
	r.Set("caller_supplied_bodies", obs)
}
