package checks

import (
	"bytes"
	"errors"
	"hash/crc32"
	"reflect"

	"verif/internal/gen"
	"verif/internal/ref"
	"verif/internal/schema"
	"verif/internal/val"
)

func init() { Registry["C02"] = c02 }

// firstDiff locates the first differing byte and the token (of the reference rendering) it falls in.
func firstDiff(a, b []byte, toks []ref.Token) map[string]any {
	n := len(a)
	if len(b) < n {
		n = len(b)
	}
	off := n
	for i := 0; i < n; i++ {
		if a[i] != b[i] {
			off = i
			break
		}
	}
	d := map[string]any{"first_diff_offset": off, "lib_len": len(a), "ref_len": len(b)}
	for _, t := range toks {
		if off >= t.Off && off < t.Off+t.W {
			d["token"] = t.Path + " (" + t.Cat + ")"
			hi := t.Off + t.W
			la, lb := hi, hi
			if la > len(a) {
				la = len(a)
			}
			if lb > len(b) {
				lb = len(b)
			}
			if t.Off <= la {
				d["lib_token_bytes"] = val.Hex(a[t.Off:la], 32)
			}
			d["ref_token_bytes"] = val.Hex(b[t.Off:lb], 32)
		}
	}
	return d
}

func c02(e *Env) {
	r := e.R
	r.Rule("per type T, case i is a pure function of (seed,'C02',T,i): even cases canonical, odd cases arbitrary (over-long / pad-terminated / all-pad text, nil nested parts, nil or mismatched bodies, unregistered keys); decode direction uses the reference encoder's images and token-by-token wire images built from the schema (arbitrary pad placement, garbage or correct computed fields). finally, for one fixed-text field per type, pairs of equal-length texts that collide under CRC-32/IEEE or FNV-1a-32 (found by birthday search) are decoded one after the other in the same process. distinct_nontrivial = distinct structural hashes of non-zero values + distinct non-empty wire images")
	r.Explain("Oracle: an independent interpreter (internal/ref, own integer rendering, padding, checksums; shares no code with /repo/codec) of the schema pinned at the baseline commit (/verif/schema/*.json, one byte order per module, no per-field override). Encode: lib bytes == ref bytes, and lib errors exactly when ref has no rendering (unregistered key with a body the encoder must fill). Decode: same accept/reject, same number of bytes consumed, lib message ≡ ref message. A change made consistently to Encode and Decode (width, field order, byte order, pad byte/side, prefix width, key→type) disagrees with ref although every repository test still passes.")
	r.Assume("the schema snapshot is faithful to the pinned commit (extracted from Encode bodies, cross-checked against Decode bodies; see schema/PROVENANCE.md); a deviation from the real exchange .pdsl that was already self-consistent at the pinned commit is inherited", "values above a prefix limit are C18's business and are skipped here")
	types := e.Types()
	n := e.N(500, 80000)
	feats := newFeatAcc()
	var programs int
	e.Par(len(types), func(i int) {
		t := types[i]
		local := map[uint64]struct{}{}
		lf := map[string]int{}
		cs := e.caseOpts(t, n, 2, false, e.Thorough)
		var evals int64
		for ci, o := range cs {
			o.Feat = lf
			if ci%2 == 1 && len(o.Lens) == 0 {
				o.Arbitrary = true
			}
			g := e.Gen(o, t.QName, ci)
			v := g.Value(t)
			if len(o.ForceKey) > 0 && ci%2 == 1 {
				// every registered key also once with the body/extension left out: where the encoder fills it
				// in, the bytes must be those of the pinned type for exactly that key
				for _, f := range t.Fields {
					if f.Kind == "union" {
						fv := reflect.ValueOf(v).Elem().FieldByName(f.Name)
						fv.Set(reflect.Zero(fv.Type()))
						lf["forced-key-with-absent-body"]++
					}
				}
			}
			if !val.IsZero(v) {
				local[val.Hash(v)] = struct{}{}
			}
			// ---- encode direction
			rb, toks, rerr := e.C.EncodeTok(t, val.Clone(v))
			if errors.Is(rerr, ref.ErrTooLong) || errors.Is(rerr, ref.ErrDomain) {
				lf["skipped:outside-ref-domain"]++
				continue
			}
			lb, lerr, p := EncodeFresh(val.Clone(v))
			evals++
			det := func(extra map[string]any) map[string]any {
				d := map[string]any{"type": t.QName, "case": ci, "value": val.Summary(v, 600), "lib_bytes": val.Hex(lb, 200), "ref_bytes": val.Hex(rb, 200)}
				for k, x := range extra {
					d[k] = x
				}
				return d
			}
			if p != nil {
				r.Violate("C02/encode-panic/"+t.QName, "C02/encode-panic/"+t.QName, det(map[string]any{"panic": p.Value, "stack": p.Stack}))
				continue
			}
			if rerr != nil {
				if !errors.Is(rerr, ref.ErrUnknownKey) {
					r.Violate("C02/bind/"+t.QName, "C02/bind/"+t.QName, det(map[string]any{"ref_error": rerr.Error()}))
					continue
				}
				lf["encode:unregistered-key-must-error"]++
				if lerr == nil {
					r.Violate("C02/encode-accepts-unregistered-key/"+t.QName, "C02/encode-accepts-unregistered-key/"+t.QName, det(nil))
				}
				continue
			}
			if lerr != nil {
				r.Violate("C02/encode-error/"+t.QName, "C02/encode-error/"+t.QName, det(map[string]any{"error": lerr.Error()}))
				continue
			}
			if !bytes.Equal(lb, rb) {
				r.Violate("C02/encode-bytes/"+t.QName, "C02/encode-bytes/"+t.QName, det(firstDiff(lb, rb, toks)))
				continue
			}
			lf["tokens-compared"] += len(toks)
			// ---- decode direction on the reference image (+ tail) and on a wire image
			imgs := [][]byte{rb, g.Wire(t)}
			for k, w := range imgs {
				tail := g.R.Bytes(g.R.Intn(9))
				full := append(append([]byte(nil), w...), tail...)
				rm, used, _, rerr := e.C.Decode(t, full, false)
				d := e.C.New[t.QName]()
				buf := bytes.NewBuffer(append([]byte(nil), full...))
				lerr, p := LibDecode(d, buf)
				evals++
				if len(w) > 0 {
					local[val.Hash(string(w))] = struct{}{}
				}
				dd := func(extra map[string]any) map[string]any {
					m := map[string]any{"type": t.QName, "case": ci, "image_kind": []string{"ref-encoded", "wire-level"}[k], "image": val.Hex(full, 300)}
					for k, x := range extra {
						m[k] = x
					}
					return m
				}
				if p != nil {
					r.Violate("C02/decode-panic/"+t.QName, "C02/decode-panic/"+t.QName, dd(map[string]any{"panic": p.Value, "stack": p.Stack}))
					continue
				}
				if (rerr == nil) != (lerr == nil) {
					r.Violate("C02/decode-accept-reject/"+t.QName, "C02/decode-accept-reject/"+t.QName, dd(map[string]any{"ref_error": errStr(rerr), "lib_error": errStr(lerr)}))
					continue
				}
				if rerr != nil {
					lf["decode:both-reject"]++
					continue
				}
				if consumed := len(full) - buf.Len(); consumed != used {
					r.Violate("C02/decode-consumed/"+t.QName, "C02/decode-consumed/"+t.QName, dd(map[string]any{"lib_consumed": consumed, "ref_consumed": used}))
					continue
				}
				if diff := val.Equal(rm, d); diff != "" {
					r.Violate("C02/decode-value/"+t.QName, "C02/decode-value/"+t.QName, dd(map[string]any{"first_difference": diff, "lib": val.Summary(d, 400), "ref": val.Summary(rm, 400)}))
					continue
				}
				lf["decode:agree-"+[]string{"ref-image", "wire-image"}[k]]++
			}
			if ci == 1 && i%35 == 0 {
				r.Sample(map[string]any{"type": t.QName, "case": ci, "value": val.Summary(v, 300), "bytes": val.Hex(rb, 96), "tokens": tokSummary(toks, 12), "verdict": "lib == ref both directions"})
			}
		}
		r.Evals(evals)
		r.DistinctMany(local)
		feats.merge(lf)
		feats.mu.Lock()
		programs++
		feats.mu.Unlock()
	})
	// ---- adversarial pairs for "compare a hash instead of the bytes" shortcuts (intern tables, caches):
	// texts of equal length that collide under CRC-32/IEEE or FNV-1a-32, decoded one after the other in
	// the same process through the same fixed-text field.
	if e.Only == "" {
		pairs := collidingPairs(e.Seed)
		var adv, advTypes int64
		for _, t := range types {
			ff := collisionField(t)
			if ff == nil {
				continue
			}
			advTypes++
			base := e.Gen(&gen.Opts{}, t.QName, "collision").Value(t)
			for pi, pr := range pairs {
				if len(pr[0]) > ff.N {
					continue
				}
				for k, txt := range []string{pr[0], pr[1], pr[0]} {
					v := val.Clone(base)
					reflect.ValueOf(v).Elem().FieldByName(ff.Name).SetString(txt)
					img, err := e.C.Encode(t, v)
					if err != nil {
						continue
					}
					d := e.C.New[t.QName]()
					derr, p := LibDecode(d, bytes.NewBuffer(append([]byte(nil), img...)))
					adv++
					got := ""
					if derr == nil && p == nil {
						got = reflect.ValueOf(d).Elem().FieldByName(ff.Name).String()
					}
					if got != txt {
						r.Violate("C02/decode-value-after-colliding-text/"+t.QName, "C02/decode-value-after-colliding-text/"+t.QName, map[string]any{"type": t.QName, "field": ff.Name, "pair": pi, "step": k, "wire_text": txt, "decoded_text": got, "decoded_before_in_this_process": []string{pr[0], pr[1]}, "note": "the two texts have equal length and equal " + pr[2]})
						break
					}
				}
			}
		}
		r.Evals(adv)
		r.Set("hash_collision_adversary", map[string]any{"colliding_pairs": len(pairs), "types_with_a_suitable_text_field": advTypes, "decodes": adv})
	}
	r.Set("programs", programs)
	r.Set("observations", feats.m)
	r.Set("protocol_versions", map[string]string{"sse": "sse_bin_v0.57", "szse": "szse_bin_v1.29", "bjse": "bse_trade_bin_v0.9", "risk": "risk_v0.1.0", "sample": "sample"})
	_ = gen.DefaultLens
}

// collisionField picks the fixed-text field of t the collision adversary writes to: right-padded, not padded
// with a letter, not a union discriminator, at least 8 wide and preferably at least 16 (the 64-bit pairs).
func collisionField(t *schema.Type) *schema.Field {
	var ff *schema.Field
	for i := range t.Fields {
		f := &t.Fields[i]
		if f.Kind != "fixstr" || f.N < 8 || f.Left || f.Pad == 'A' {
			continue
		}
		isKey := false
		for _, u := range t.Fields {
			if u.Kind == "union" && u.Key == f.Name {
				isKey = true
			}
		}
		if isKey {
			continue
		}
		if ff == nil || (ff.N < 16 && f.N > ff.N) {
			ff = f
		}
	}
	return ff
}

// collidingPairs finds, by birthday search over 8-character texts, pairs that collide under CRC-32/IEEE
// and pairs that collide under FNV-1a-32.
func collidingPairs(seed int64) [][3]string {
	var out [][3]string
	rng := gen.NewRng(seed, "C02", "collisions")
	const alpha = "ABCDEFGHIJKLMNOPQRSTUVWXYZ0123456789"
	n := 1 << 19
	texts := make([]string, n)
	for i := range texts {
		b := make([]byte, 8)
		x := rng.U64()
		for k := range b {
			b[k] = alpha[x%36]
			x /= 36
		}
		texts[i] = string(b)
	}
	for _, h := range []struct {
		name string
		f    func(string) uint32
	}{{"CRC-32/IEEE", func(s string) uint32 { return crc32.ChecksumIEEE([]byte(s)) }}, {"FNV-1a-32", func(s string) uint32 {
		x := uint32(2166136261)
		for i := 0; i < len(s); i++ {
			x = (x ^ uint32(s[i])) * 16777619
		}
		return x
	}}} {
		seen := make(map[uint32]int32, n)
		found := 0
		for i, s := range texts {
			k := h.f(s)
			if j, ok := seen[k]; ok && texts[j] != s {
				out = append(out, [3]string{texts[j], s, h.name})
				found++
				if found >= 6 {
					break
				}
			} else {
				seen[k] = int32(i)
			}
		}
	}
	out = append(out, verifiedFnv64Pairs()...)
	return out
}

func errStr(err error) string {
	if err == nil {
		return "<accepted>"
	}
	return err.Error()
}

func tokSummary(toks []ref.Token, max int) []string {
	var s []string
	for i, t := range toks {
		if i >= max {
			s = append(s, "…")
			break
		}
		s = append(s, t.Path+":"+t.Cat+"@"+itoa(t.Off)+"+"+itoa(t.W))
	}
	return s
}

func itoa(i int) string {
	if i == 0 {
		return "0"
	}
	neg := i < 0
	if neg {
		i = -i
	}
	var b [20]byte
	p := len(b)
	for i > 0 {
		p--
		b[p] = byte('0' + i%10)
		i /= 10
	}
	if neg {
		p--
		b[p] = '-'
	}
	return string(b[p:])
}
