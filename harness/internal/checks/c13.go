package checks

import (
	"bytes"
	"fmt"
	"reflect"
	"strings"

	"github.com/xinchentechnote/fin-proto-go/codec"

	"verif/internal/gen"
	"verif/internal/mon"
	"verif/internal/ref"
	"verif/internal/schema"
	"verif/internal/val"
)

func init() { Registry["C13"] = c13 }

type c13ctx struct {
	e                      *Env
	writes, reads, nontriv int64
	padsHigh, padsLow      int64
}

func sideName(left bool) string {
	if left {
		return "left"
	}
	return "right"
}

func (c *c13ctx) write(s string, n int, pad byte, left bool) {
	r := c.e.R
	var b bytes.Buffer
	switch c.writes % 3 {
	case 1:
		// a reused buffer: its spare capacity still holds the bytes of an earlier, longer message
		b.Write(bytes.Repeat([]byte{0xEE}, n+len(s)+40))
		b.Reset()
	case 2:
		// partly consumed buffer with garbage in the spare capacity
		back := bytes.Repeat([]byte{0xDD}, n+64)
		b = *bytes.NewBuffer(back[:8:len(back)])
		b.Next(8)
	}
	b.WriteString("P")
	err, p := mon.Call(func() error { return codec.WriteFixedStringWithPadding(&b, s, n, rune(pad), left) })
	c.writes++
	all := b.Bytes()
	got := all[min(1, len(all)):]
	want := ref.FixWrite(s, n, pad, left)
	if p != nil || err != nil || !bytes.Equal(got, want) || len(all) == 0 || all[0] != 'P' {
		cls := fmt.Sprintf("C13/write/%s/pad>=0x80:%v", sideName(left), pad >= 0x80)
		r.Violate(cls, "C13/write", map[string]any{"width": n, "pad": fmt.Sprintf("%#02x", pad), "side": sideName(left), "text": val.Hex([]byte(s), 64), "written": val.Hex(got, 64), "model": val.Hex(want, 64), "error": fmt.Sprint(err), "panic": fmt.Sprint(p)})
	}
	if len(s) != n && len(s) > 0 {
		c.nontriv++
	}
}

func (c *c13ctx) read(w []byte, pad byte, left bool) {
	r := c.e.R
	tail := []byte("TAIL")
	buf := bytes.NewBuffer(append(append([]byte(nil), w...), tail...))
	var got string
	err, p := mon.Call(func() error {
		var e error
		got, e = codec.ReadFixedStringTrimPadding(buf, len(w), rune(pad), left)
		return e
	})
	c.reads++
	want := ref.FixRead(w, pad, left)
	if p != nil || err != nil || got != want || !bytes.Equal(buf.Bytes(), tail) {
		kind := "kept-pad-bytes"
		if len(got) < len(want) {
			kind = "stripped-non-pad-bytes"
		}
		cls := fmt.Sprintf("C13/read/%s/%s/pad>=0x80:%v", kind, sideName(left), pad >= 0x80)
		r.Violate(cls, "C13/read/"+kind, map[string]any{"width": len(w), "pad": fmt.Sprintf("%#02x", pad), "side": sideName(left), "wire": val.Hex(w, 64), "read": val.Hex([]byte(got), 64), "model": val.Hex([]byte(want), 64), "error": fmt.Sprint(err), "panic": fmt.Sprint(p), "left_in_buffer": buf.Len()})
	}
	if want != string(w) {
		c.nontriv++
	}
	if pad >= 0x80 {
		c.padsHigh++
	} else {
		c.padsLow++
	}
}

func c13(e *Env) {
	r := e.R
	r.Rule("exhaustive small scope: width N in 0..3 × all 256 pad bytes × both pad sides × every text of length <= N+1 over the alphabet {pad, 'a', 0x00, 0xC2, 0x80} for writes and every N-byte wire string over it for reads; random: N in 0..300 ∪ {4096, 65536}, random pad byte, texts of length 0..N+8 biased to all-pad, pad at both ends, multi-byte UTF-8 cut mid-sequence; the default wrappers (space, right) and the list variants per element; message level: every fixed-width text field of every one of the 170 message types, read by the message's own decoder from token-level wire images (arbitrary pad placement, interior and trailing NUL/space) and written by its encoder from over-long / short / pad-terminated texts. distinct_nontrivial = writes where the text is neither empty nor exactly N bytes + reads where stripping removed at least one byte")
	r.Explain("Oracle: an independent 10-line model — write(s,N,p,side) = s[:N] if len(s) >= N else s padded with p on the pad side; read(w,p,side) = w with leading (left) or trailing (right) bytes equal to p removed and nothing else. Writes go alternately into a fresh buffer, a Reset() buffer whose spare capacity still holds 0xEE bytes of an earlier message, and a drained buffer over a garbage-filled array. Checked: exactly N bytes appended (bytes before untouched), appended == model, reader returns model and consumes exactly N bytes.")
	r.Assume("pad characters above 0xFF are outside 'pad byte' and are not generated")
	c := &c13ctx{e: e}
	// ---- exhaustive small scope
	for n := 0; n <= 3; n++ {
		for padI := 0; padI < 256; padI++ {
			pad := byte(padI)
			alpha := []byte{pad, 'a', 0x00, 0xC2, 0x80}
			for _, left := range []bool{false, true} {
				var rec func(prefix []byte, depth, max int, f func([]byte))
				rec = func(prefix []byte, depth, max int, f func([]byte)) {
					f(prefix)
					if depth == max {
						return
					}
					for _, ch := range alpha {
						rec(append(append([]byte(nil), prefix...), ch), depth+1, max, f)
					}
				}
				rec(nil, 0, n+1, func(s []byte) { c.write(string(s), n, pad, left) })
				rec(nil, 0, n, func(w []byte) {
					if len(w) == n {
						c.read(w, pad, left)
					}
				})
			}
		}
	}
	exh := c.writes + c.reads
	// ---- random
	rng := gen.NewRng(e.Seed, "C13", "random")
	g := &gen.Gen{S: e.S, C: e.C, R: rng, O: &gen.Opts{}}
	nr := e.N(100000, 15000000)
	for i := 0; i < nr; i++ {
		n := rng.Intn(301)
		switch rng.Intn(200) {
		case 0:
			n = 4096
		case 1:
			n = 65536
		}
		pad := byte(rng.U64())
		if rng.Chance(1, 3) {
			pad = []byte{' ', '0', 0, 0x80, 0xFF, 0xC2}[rng.Intn(6)]
		}
		left := rng.Bool()
		l := rng.Intn(n + 9)
		s := []byte(g.Text(l))
		switch rng.Intn(6) {
		case 0:
			for k := range s {
				s[k] = pad
			}
		case 1:
			if l > 1 {
				s[0], s[l-1] = pad, pad
			}
		case 2:
			if l > 2 {
				copy(s[l-2:], "\xe2\x82") // multi-byte sequence cut at the end
			}
		}
		c.write(string(s), n, pad, left)
		w := []byte(g.Text(n))
		if rng.Bool() && n > 0 { // pad runs on both sides
			a, b := rng.Intn(n+1), rng.Intn(n+1)
			for k := 0; k < a; k++ {
				w[k] = pad
			}
			for k := 0; k < b; k++ {
				w[n-1-k] = pad
			}
		}
		c.read(w, pad, left)
	}
	// ---- texts that collide under CRC-32 / FNV-1a, read one after the other (hash-compare shortcuts in the reader)
	for _, pr := range collidingPairs(e.Seed) {
		for _, left := range []bool{false, true} {
			for _, txt := range []string{pr[0], pr[1], pr[0]} {
				w := ref.FixWrite(txt, len(txt)+4, ' ', left)
				c.read(w, ' ', left)
			}
		}
	}
	// ---- default wrappers and list variants
	nw := e.N(10000, 1500000)
	var wrappers int64
	for i := 0; i < nw; i++ {
		n := rng.Intn(40)
		s := g.Text(rng.Intn(n + 4))
		var b bytes.Buffer
		err, p := mon.Call(func() error { return codec.WriteFixedString(&b, s, n) })
		want := ref.FixWrite(s, n, ' ', false)
		var got string
		err2, pr := mon.Call(func() (e error) {
			got, e = codec.ReadFixedString(bytes.NewBuffer(append([]byte(nil), want...)), n)
			return
		})
		if pr != nil {
			err2 = fmt.Errorf("panic: %v", pr.Value)
		}
		wrappers++
		if p != nil || err != nil || err2 != nil || !bytes.Equal(b.Bytes(), want) || got != ref.FixRead(want, ' ', false) {
			r.Violate("C13/default-wrapper", "C13/default-wrapper", map[string]any{"width": n, "text": val.Hex([]byte(s), 64), "written": val.Hex(b.Bytes(), 64), "model": val.Hex(want, 64), "read": got})
		}
		// list variants: per element
		pad := []byte{' ', '0', 0, 0xFF, 0x80}[rng.Intn(5)]
		left := rng.Bool()
		k := rng.Intn(5)
		vs := make([]string, k)
		wantL := []byte{0, byte(k)}
		wantLE := []byte{byte(k), 0}
		var wantRead []string
		for j := range vs {
			vs[j] = g.Text(rng.Intn(n + 3))
			el := ref.FixWrite(vs[j], n, pad, left)
			wantL = append(wantL, el...)
			wantLE = append(wantLE, el...)
			wantRead = append(wantRead, ref.FixRead(el, pad, left))
		}
		var b1, b2 bytes.Buffer
		e1, p1 := mon.Call(func() error { return codec.WriteFixedStringListWithPadding[uint16](&b1, vs, n, rune(pad), left) })
		e2, p2 := mon.Call(func() error { return codec.WriteFixedStringListWithPaddingLE[uint16](&b2, vs, n, rune(pad), left) })
		var r1, r2 []string
		e3, p3 := mon.Call(func() (e error) {
			r1, e = codec.ReadFixedStringListTrimPadding[uint16](bytes.NewBuffer(append([]byte(nil), wantL...)), n, rune(pad), left)
			return
		})
		e4, p4 := mon.Call(func() (e error) {
			r2, e = codec.ReadFixedStringListTrimPaddingLE[uint16](bytes.NewBuffer(append([]byte(nil), wantLE...)), n, rune(pad), left)
			return
		})
		if p3 != nil {
			e3 = fmt.Errorf("panic: %v", p3.Value)
		}
		if p4 != nil {
			e4 = fmt.Errorf("panic: %v", p4.Value)
		}
		wrappers++
		if p1 != nil || p2 != nil || e1 != nil || e2 != nil || e3 != nil || e4 != nil || !bytes.Equal(b1.Bytes(), wantL) || !bytes.Equal(b2.Bytes(), wantLE) || val.Equal(r1, wantRead) != "" || val.Equal(r2, wantRead) != "" {
			r.Violate(fmt.Sprintf("C13/list-variant/pad>=0x80:%v", pad >= 0x80), "C13/list-variant", map[string]any{"width": n, "pad": fmt.Sprintf("%#02x", pad), "side": sideName(left), "elements": k, "written": val.Hex(b1.Bytes(), 64), "model": val.Hex(wantL, 64), "read": fmt.Sprint(r1), "model_read": fmt.Sprint(wantRead)})
		}
	}
	if e.Only != "primitives" {
		c13Messages(e)
	}
	r.Evals(c.writes + c.reads + wrappers)
	r.DistinctAdd(c.nontriv)
	r.Set("exhaustive_small_scope_cases", exh)
	r.Set("writes", c.writes)
	r.Set("reads", c.reads)
	r.Set("reads_with_pad_byte_ge_0x80", c.padsHigh)
	r.Set("wrapper_and_list_cases", wrappers)
	r.Set("exhaustive_subspace", "N<=3 × 256 pads × 2 sides × all texts of length <= N+1 (writes) / == N (reads) over a 5-symbol alphabet containing the pad byte")
	r.Sample(map[string]any{"op": "write", "width": 6, "pad": "0xff", "side": "right", "text": "6162", "model": "6162ffffffff"})
	r.Sample(map[string]any{"op": "read", "pad": "0x80", "side": "right", "wire": "6162c280c280", "model": "6162c280c2 (only the single trailing 0x80 is pad)"})
}

// walkFix visits, guided by the pinned schema, every fixed-width text field of two messages of type t
// (scalars, list elements, nested parts, object-list elements, union bodies of equal type).
func walkFix(e *Env, t *schema.Type, a, b reflect.Value, path string, f func(fd *schema.Field, path, x, y string)) {
	for i := range t.Fields {
		fd := &t.Fields[i]
		fa, fb := a.FieldByName(fd.Name), b.FieldByName(fd.Name)
		p := path + "." + fd.Name
		switch fd.Kind {
		case "fixstr":
			f(fd, p, fa.String(), fb.String())
		case "list":
			if fd.Elem.Kind == "fixstr" && fa.Len() == fb.Len() {
				for k := 0; k < fa.Len(); k++ {
					f(fd.Elem, fmt.Sprintf("%s[%d]", p, k), fa.Index(k).String(), fb.Index(k).String())
				}
			}
		case "struct":
			st := e.S.Lookup(t.Pkg, fd.Type)
			if fd.Value {
				walkFix(e, st, fa, fb, p, f)
			} else if !fa.IsNil() && !fb.IsNil() {
				walkFix(e, st, fa.Elem(), fb.Elem(), p, f)
			}
		case "objlist":
			et := e.S.Lookup(t.Pkg, fd.Type)
			if fa.Len() == fb.Len() {
				for k := 0; k < fa.Len(); k++ {
					if !fa.Index(k).IsNil() && !fb.Index(k).IsNil() {
						walkFix(e, et, fa.Index(k).Elem(), fb.Index(k).Elem(), fmt.Sprintf("%s[%d]", p, k), f)
					}
				}
			}
		case "union":
			if !fa.IsNil() && !fb.IsNil() && fa.Elem().Type() == fb.Elem().Type() {
				if bt := e.C.TypeOf(fa.Interface()); bt != nil {
					walkFix(e, bt, fa.Elem().Elem(), fb.Elem().Elem(), p, f)
				}
			}
		}
	}
}

// c13Messages applies the same model to every fixed-width text field of every message type: the
// field as read by the message's decoder from a token-level wire image, and the N bytes emitted by
// the message's encoder for over-long / short / pad-terminated texts.
func c13Messages(e *Env) {
	r := e.R
	types := e.Types()
	n := e.N(200, 25000)
	acc := newFeatAcc()
	e.Par(len(types), func(i int) {
		t := types[i]
		lf := map[string]int{}
		var evals int64
		for ci := 0; ci < n; ci++ {
			g := e.Gen(&gen.Opts{Arbitrary: true, NoNilBody: ci%3 != 0}, "msg", t.QName, ci)
			// ---- read side
			img := g.Wire(t)
			rm, used, _, rerr := e.C.Decode(t, img, false)
			d := e.C.New[t.QName]()
			lerr, p := LibDecode(d, bytes.NewBuffer(append([]byte(nil), img...)))
			if rerr == nil && lerr == nil && p == nil {
				evals++
				walkFix(e, t, reflect.ValueOf(rm).Elem(), reflect.ValueOf(d).Elem(), t.QName, func(fd *schema.Field, path, want, got string) {
					lf["fields-read"]++
					if want != got {
						kind := "kept-pad-bytes"
						if len(got) < len(want) {
							kind = "stripped-non-pad-bytes"
						}
						r.Violate("C13/message-field-read/"+kind+"/"+t.QName, "C13/message-field-read/"+t.QName, map[string]any{"type": t.QName, "case": ci, "field": path, "width": fd.N, "pad": fmt.Sprintf("%#02x", fd.Pad), "side": sideName(fd.Left), "read": val.Hex([]byte(got), 64), "model": val.Hex([]byte(want), 64), "image": val.Hex(img[:used], 200)})
					}
				})
			}
			// ---- write side
			v := g.Value(t)
			rb, toks, rerr := e.C.EncodeTok(t, val.Clone(v))
			lb, lerr, p := EncodeFresh(val.Clone(v))
			if rerr != nil || lerr != nil || p != nil {
				continue
			}
			if len(rb) != len(lb) {
				// the renderings differ in length: C13's business only if the FIRST divergence falls into a
				// fixed-width text token (a field that emitted more or fewer than its N bytes), otherwise C02's
				d := 0
				for d < len(rb) && d < len(lb) && rb[d] == lb[d] {
					d++
				}
				// ... or if the two renderings re-synchronise once one fixed-width text token is given another width:
				// everything before the field equal, everything after it equal, only the field W+delta bytes wide
				delta := len(lb) - len(rb)
				for ti, tk := range toks {
					last := ti == len(toks)-1
					if tk.Cat != "text" || tk.W == 0 || !isFixSite(e, tk.Site) {
						continue
					}
					inside := (d >= tk.Off && d < tk.Off+tk.W) || (d == tk.Off+tk.W && (last || toks[ti+1].Off > d || d == len(rb)))
					resync := tk.W+delta >= 0 && tk.Off+tk.W+delta <= len(lb) && bytes.Equal(lb[:tk.Off], rb[:tk.Off]) && bytes.Equal(lb[tk.Off+tk.W+delta:], rb[tk.Off+tk.W:])
					if inside || resync {
						r.Violate("C13/message-field-width/"+t.QName, "C13/message-field-width/"+t.QName, map[string]any{"type": t.QName, "case": ci, "field": tk.Path, "pinned_width": tk.W, "emitted_width_if_resynchronised": tk.W + delta, "library_bytes_total": len(lb), "model_bytes_total": len(rb), "first_difference_at": d, "library_from_field_start": val.Hex(lb[min(tk.Off, len(lb)):], 80), "model_field": val.Hex(rb[tk.Off:tk.Off+tk.W], 80), "value": val.Summary(v, 300)})
						break
					}
				}
				continue
			}
			evals++
			for _, tk := range toks {
				if tk.Cat != "text" || tk.W == 0 {
					continue
				}
				if !bytes.Equal(lb[tk.Off:tk.Off+tk.W], rb[tk.Off:tk.Off+tk.W]) && isFixSite(e, tk.Site) {
					r.Violate("C13/message-field-write/"+t.QName, "C13/message-field-write/"+t.QName, map[string]any{"type": t.QName, "case": ci, "field": tk.Path, "written": val.Hex(lb[tk.Off:tk.Off+tk.W], 64), "model": val.Hex(rb[tk.Off:tk.Off+tk.W], 64), "value": val.Summary(v, 300)})
					break
				}
				lf["fields-written"]++
			}
		}
		r.Evals(evals)
		acc.merge(lf)
	})
	r.DistinctAdd(int64(acc.m["fields-read"] / 4)) // conservative: wire generator places pad/NUL patterns in 5 of 8 text tokens
	r.Set("message_level_fixed_text_fields", acc.m)
}

func isFixSite(e *Env, site string) bool {
	i := strings.LastIndex(site, ".")
	if i < 0 {
		return false
	}
	t := e.S.Types[site[:i]]
	if t == nil {
		return false
	}
	for _, f := range t.Fields {
		if f.Name == site[i+1:] {
			return f.Kind == "fixstr" || (f.Kind == "list" && f.Elem.Kind == "fixstr")
		}
	}
	return false
}
