package checks

import (
	"bytes"
	"fmt"
	"reflect"
	"strings"

	"verif/internal/gen"
	"verif/internal/schema"
	"verif/internal/val"
)

func init() { Registry["C15"] = c15 }

var dirtyNames = []string{"populated-object(longer lists, other union member)", "previously-decoded-other-image", "after-failed-truncated-decode",
	"aliased-sub-objects(one nested object shared by every list entry and nested part, numeric lists sharing one backing array)", "near-miss(the fresh result with every fixed text padded on its pad side and lists one longer)",
	"decoded-one-image-then-failed-on-a-truncated-other", "hand-built(discriminator and body/extension type disagree, over-long texts)"}

// shareBacking makes every numeric list of the object graph a window onto ONE backing array per element type
// (a caller that pre-allocates a table and hands slices of it to several parts of a pooled message).
func shareBacking(v reflect.Value, pools map[reflect.Type]reflect.Value) {
	switch v.Kind() {
	case reflect.Pointer, reflect.Interface:
		if !v.IsNil() {
			shareBacking(v.Elem(), pools)
		}
	case reflect.Struct:
		for i := 0; i < v.NumField(); i++ {
			shareBacking(v.Field(i), pools)
		}
	case reflect.Slice:
		ek := v.Type().Elem().Kind()
		if ek == reflect.Pointer {
			for i := 0; i < v.Len(); i++ {
				shareBacking(v.Index(i), pools)
			}
			return
		}
		if ek == reflect.String || !v.CanSet() {
			return
		}
		pool, ok := pools[v.Type()]
		if !ok {
			pool = reflect.MakeSlice(v.Type(), 512, 512)
			pools[v.Type()] = pool
		}
		n := v.Len()
		if n > 512 {
			n = 512
		}
		reflect.Copy(pool, v.Slice(0, n))
		v.Set(pool.Slice3(0, n, 512))
	}
}

// aliasParts makes every object-list entry of v (and every nested pointer part of the same type) point to ONE shared object.
func aliasParts(e *Env, t *schema.Type, v reflect.Value) {
	for i := range t.Fields {
		f := &t.Fields[i]
		fv := v.FieldByName(f.Name)
		switch f.Kind {
		case "objlist":
			if fv.Len() == 0 {
				continue
			}
			shared := fv.Index(0)
			for k := 1; k < fv.Len(); k++ {
				fv.Index(k).Set(shared)
			}
			for j := range t.Fields {
				g := &t.Fields[j]
				if g.Kind == "struct" && !g.Value && g.Type == f.Type {
					v.FieldByName(g.Name).Set(shared)
				}
			}
		case "struct":
			if !f.Value && !fv.IsNil() {
				aliasParts(e, e.S.Lookup(t.Pkg, f.Type), fv.Elem())
			}
		case "union":
			if !fv.IsNil() {
				if bt := e.C.TypeOf(fv.Interface()); bt != nil {
					aliasParts(e, bt, fv.Elem().Elem())
				}
			}
		}
	}
}

// nearMiss perturbs v (a clone of the fresh result) into something a shortcut might mistake for "unchanged":
// fixed texts get pad bytes on their pad side, lists get one more entry.
func nearMiss(e *Env, t *schema.Type, v reflect.Value) {
	for i := range t.Fields {
		f := &t.Fields[i]
		fv := v.FieldByName(f.Name)
		switch f.Kind {
		case "fixstr":
			pad := strings.Repeat(string([]byte{byte(f.Pad)}), 3)
			if f.Left {
				fv.SetString(pad + fv.String())
			} else {
				fv.SetString(fv.String() + pad)
			}
		case "pstr":
			fv.SetString(fv.String() + " ")
		case "list", "objlist":
			if fv.Len() > 0 {
				fv.Set(reflect.Append(fv, fv.Index(fv.Len()-1)))
			}
		case "struct":
			if f.Value {
				nearMiss(e, e.S.Lookup(t.Pkg, f.Type), fv)
			} else if !fv.IsNil() {
				nearMiss(e, e.S.Lookup(t.Pkg, f.Type), fv.Elem())
			}
		case "union":
			if !fv.IsNil() {
				if bt := e.C.TypeOf(fv.Interface()); bt != nil {
					nearMiss(e, bt, fv.Elem().Elem())
				}
			}
		}
	}
}

func c15(e *Env) {
	r := e.R
	r.Rule("every type × images (even cases: valid images of canonical values; odd cases: token-level wire images incl. all-pad text and zero counts; every 5th: images with 1..4 mutated bytes, accepted or not) × 7 dirty receivers: an object populated with longer lists / another union member / non-nil nested parts, an object that already decoded a different image, an object left behind by a failed decode of a truncated image, an object whose list entries and nested parts all alias ONE shared sub-object, a near miss of the expected result (every fixed text padded on its pad side, prefixed texts one byte longer, lists one entry longer), an object that decoded one image and then failed half way through another, and a hand-built object whose discriminator and body/extension type disagree; in the aliased receiver all numeric lists are windows onto one shared backing array. distinct_nontrivial = distinct (image hash, dirty kind) where the dirty receiver really differed from the fresh result before the decode")
	r.Explain("Oracle: Decode(image) into a fresh object and into each dirty receiver agree on accept/reject, and on accept the two messages are ≡ (strict: list lengths, union member type, nested parts); additionally the same number of bytes is consumed.")
	types := e.Types()
	n := e.N(200, 40000)
	acc := newFeatAcc()
	e.Par(len(types), func(i int) {
		t := types[i]
		local := map[uint64]struct{}{}
		lf := map[string]int{}
		var evals int64
		cs := e.caseOpts(t, n, 1, false, false)
		for ci, o := range cs {
			g := e.Gen(o, t.QName, ci)
			var img []byte
			if ci%2 == 0 {
				w, err, p := EncodeFresh(g.Value(t))
				if err != nil || p != nil {
					continue
				}
				img = append([]byte(nil), w...)
			} else {
				img = g.Wire(t)
			}
			if ci%5 == 4 && len(img) > 0 {
				for k := 0; k <= g.R.Intn(4); k++ {
					img[g.R.Intn(len(img))] = byte(g.R.U64())
				}
			}
			fresh := e.C.New[t.QName]()
			fb := bytes.NewBuffer(append([]byte(nil), img...))
			ferr, fp := LibDecode(fresh, fb)
			evals++
			if fp != nil {
				continue // C09's business
			}
			for dk := 0; dk < 7; dk++ {
				g2 := &gen.Gen{S: e.S, C: e.C, R: gen.NewRng(e.Seed, "C15", t.QName, ci, "dirty", dk), O: &gen.Opts{Lens: []int{2, 3, 17}}}
				var dirty any
				switch dk {
				case 0:
					dirty = g2.Value(t)
				case 1:
					dirty = e.C.New[t.QName]()
					LibDecode(dirty, bytes.NewBuffer(g2.Wire(t)))
				case 2:
					dirty = e.C.New[t.QName]()
					w, _, _ := EncodeFresh(g2.Value(t))
					if len(w) > 1 {
						w = w[:1+g2.R.Intn(len(w)-1)]
					}
					LibDecode(dirty, bytes.NewBuffer(append([]byte(nil), w...)))
				case 3:
					dirty = g2.Value(t)
					aliasParts(e, t, reflect.ValueOf(dirty).Elem())
					shareBacking(reflect.ValueOf(dirty), map[reflect.Type]reflect.Value{})
				case 5:
					// a successful decode of one image, then a decode of another that fails half way
					dirty = e.C.New[t.QName]()
					LibDecode(dirty, bytes.NewBuffer(g2.Wire(t)))
					w, _, _ := EncodeFresh(g2.Value(t))
					if len(w) > 1 {
						w = w[:1+g2.R.Intn(len(w)-1)]
					}
					LibDecode(dirty, bytes.NewBuffer(append([]byte(nil), w...)))
				case 6:
					g2.O = &gen.Opts{Arbitrary: true, Lens: []int{2, 3, 17}}
					dirty = g2.Value(t)
				case 4:
					if ferr != nil {
						continue
					}
					dirty = val.Clone(fresh)
					nearMiss(e, t, reflect.ValueOf(dirty).Elem())
				}
				differed := ferr == nil && val.Equal(fresh, dirty) != ""
				before := val.Summary(dirty, 300)
				db := bytes.NewBuffer(append([]byte(nil), img...))
				derr, dp := LibDecode(dirty, db)
				evals++
				det := func(extra map[string]any) map[string]any {
					m := map[string]any{"type": t.QName, "case": ci, "dirty_kind": dirtyNames[dk], "image": val.Hex(img, 200), "receiver_before": before, "fresh_result": val.Summary(fresh, 300)}
					for k, x := range extra {
						m[k] = x
					}
					return m
				}
				if dp != nil {
					r.Violate("C15/panic-on-dirty-receiver/"+t.QName, "C15/panic-on-dirty-receiver/"+t.QName, det(map[string]any{"panic": dp.Value, "stack": dp.Stack}))
					continue
				}
				if (ferr == nil) != (derr == nil) {
					r.Violate("C15/accept-reject-depends-on-receiver/"+t.QName, "C15/accept-reject-depends-on-receiver/"+t.QName, det(map[string]any{"fresh_error": errStr(ferr), "dirty_error": errStr(derr)}))
					continue
				}
				if ferr != nil {
					lf["both-reject"]++
					continue
				}
				if fb.Len() != db.Len() {
					r.Violate("C15/consumed-depends-on-receiver/"+t.QName, "C15/consumed-depends-on-receiver/"+t.QName, det(map[string]any{"fresh_left": fb.Len(), "dirty_left": db.Len()}))
					continue
				}
				if diff := val.Equal(fresh, dirty); diff != "" {
					r.Violate("C15/result-depends-on-receiver/"+t.QName, "C15/result-depends-on-receiver/"+t.QName, det(map[string]any{"first_difference": diff, "dirty_result": val.Summary(dirty, 300)}))
					continue
				}
				lf["agree:"+dirtyNames[dk]]++
				if differed {
					lf["receiver-really-differed-before"]++
					local[val.Hash(string(img))+uint64(dk)] = struct{}{}
				}
			}
			if ci == 1 && i%50 == 0 {
				r.Sample(map[string]any{"type": t.QName, "image": val.Hex(img, 48), "fresh": val.Summary(fresh, 160), "verdict": "3 dirty receivers ≡ fresh"})
			}
		}
		r.Evals(evals)
		r.DistinctMany(local)
		acc.merge(lf)
	})
	r.Set("observations", acc.m)
	_ = fmt.Sprint
}
