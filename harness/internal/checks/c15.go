package checks

import (
	"bytes"
	"fmt"

	"verif/internal/gen"
	"verif/internal/val"
)

func init() { Registry["C15"] = c15 }

var dirtyNames = []string{"populated-object(longer lists, other union member)", "previously-decoded-other-image", "after-failed-truncated-decode"}

func c15(e *Env) {
	r := e.R
	r.Rule("every type × images (even cases: valid images of canonical values; odd cases: token-level wire images incl. all-pad text and zero counts; every 5th: images with 1..4 mutated bytes, accepted or not) × 3 dirty receivers: an object populated with longer lists / another union member / non-nil nested parts, an object that already decoded a different image, an object left behind by a failed decode of a truncated image. distinct_nontrivial = distinct (image hash, dirty kind) where the dirty receiver really differed from the fresh result before the decode")
	r.Explain("Oracle: Decode(image) into a fresh object and into each dirty receiver agree on accept/reject, and on accept the two messages are ≡ (strict: list lengths, union member type, nested parts); additionally the same number of bytes is consumed.")
	types := e.Types()
	n := e.N(200, 8000)
	acc := newFeatAcc()
	e.Par(len(types), func(i int) {
		t := types[i]
		local := map[uint64]struct{}{}
		lf := map[string]int{}
		var evals int64
		cs := e.caseOpts(t, n, 1, false, false)
		for ci, o := range cs {
			g := e.Gen(o, t.QName, ci)
			var img []byte
			if ci%2 == 0 {
				w, err, p := EncodeFresh(g.Value(t))
				if err != nil || p != nil {
					continue
				}
				img = append([]byte(nil), w...)
			} else {
				img = g.Wire(t)
			}
			if ci%5 == 4 && len(img) > 0 {
				for k := 0; k <= g.R.Intn(4); k++ {
					img[g.R.Intn(len(img))] = byte(g.R.U64())
				}
			}
			fresh := e.C.New[t.QName]()
			fb := bytes.NewBuffer(append([]byte(nil), img...))
			ferr, fp := LibDecode(fresh, fb)
			evals++
			if fp != nil {
				continue // C09's business
			}
			for dk := 0; dk < 3; dk++ {
				g2 := &gen.Gen{S: e.S, C: e.C, R: gen.NewRng(e.Seed, "C15", t.QName, ci, "dirty", dk), O: &gen.Opts{Lens: []int{2, 3, 17}}}
				var dirty any
				switch dk {
				case 0:
					dirty = g2.Value(t)
				case 1:
					dirty = e.C.New[t.QName]()
					LibDecode(dirty, bytes.NewBuffer(g2.Wire(t)))
				case 2:
					dirty = e.C.New[t.QName]()
					w, _, _ := EncodeFresh(g2.Value(t))
					if len(w) > 1 {
						w = w[:1+g2.R.Intn(len(w)-1)]
					}
					LibDecode(dirty, bytes.NewBuffer(append([]byte(nil), w...)))
				}
				differed := ferr == nil && val.Equal(fresh, dirty) != ""
				before := val.Summary(dirty, 300)
				db := bytes.NewBuffer(append([]byte(nil), img...))
				derr, dp := LibDecode(dirty, db)
				evals++
				det := func(extra map[string]any) map[string]any {
					m := map[string]any{"type": t.QName, "case": ci, "dirty_kind": dirtyNames[dk], "image": val.Hex(img, 200), "receiver_before": before, "fresh_result": val.Summary(fresh, 300)}
					for k, x := range extra {
						m[k] = x
					}
					return m
				}
				if dp != nil {
					r.Violate("C15/panic-on-dirty-receiver/"+t.QName, "C15/panic-on-dirty-receiver/"+t.QName, det(map[string]any{"panic": dp.Value, "stack": dp.Stack}))
					continue
				}
				if (ferr == nil) != (derr == nil) {
					r.Violate("C15/accept-reject-depends-on-receiver/"+t.QName, "C15/accept-reject-depends-on-receiver/"+t.QName, det(map[string]any{"fresh_error": errStr(ferr), "dirty_error": errStr(derr)}))
					continue
				}
				if ferr != nil {
					lf["both-reject"]++
					continue
				}
				if fb.Len() != db.Len() {
					r.Violate("C15/consumed-depends-on-receiver/"+t.QName, "C15/consumed-depends-on-receiver/"+t.QName, det(map[string]any{"fresh_left": fb.Len(), "dirty_left": db.Len()}))
					continue
				}
				if diff := val.Equal(fresh, dirty); diff != "" {
					r.Violate("C15/result-depends-on-receiver/"+t.QName, "C15/result-depends-on-receiver/"+t.QName, det(map[string]any{"first_difference": diff, "dirty_result": val.Summary(dirty, 300)}))
					continue
				}
				lf["agree:"+dirtyNames[dk]]++
				if differed {
					lf["receiver-really-differed-before"]++
					local[val.Hash(string(img))+uint64(dk)] = struct{}{}
				}
			}
			if ci == 1 && i%50 == 0 {
				r.Sample(map[string]any{"type": t.QName, "image": val.Hex(img, 48), "fresh": val.Summary(fresh, 160), "verdict": "3 dirty receivers ≡ fresh"})
			}
		}
		r.Evals(evals)
		r.DistinctMany(local)
		acc.merge(lf)
	})
	r.Set("observations", acc.m)
	_ = fmt.Sprint
}
