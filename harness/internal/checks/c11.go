package checks

import (
	"bytes"
	"fmt"

	"github.com/xinchentechnote/fin-proto-go/codec"

	"verif/internal/val"
)

func init() { Registry["C11"] = c11 }

func c11(e *Env) {
	r := e.R
	if isAbsentChild(e) {
		codec.Clear()
	}
	r.Rule("every type × canonical values (as C01, incl. non-empty lists, long prefixed texts, every registered union member at least once; a prefixed text is sometimes an earlier case's text plus a suffix, and each complete image is decoded before its prefixes are tried) × EVERY cut position k in 0..len-1 of the valid image (images longer than 4 KiB: token boundaries ±1 — all of them up to a budget of 16 MB of decoded bytes per image, evenly thinned beyond — plus 256 random offsets). distinct_nontrivial = distinct (image hash) with at least one cut")
	r.Explain("Oracle: Decode(image[:k]) into a fresh receiver returns a non-nil error and does not panic. Soundness: with C07 (exact consumption) a decoder that accepted image[:k] would have consumed at most k < len bytes on the full image too, so a correct tree cannot accept a strict prefix; types whose image is empty contribute no cuts.")
	types := e.Types()
	n := e.N(40, 2500)
	acc := newFeatAcc()
	var empty int64
	e.Par(len(types), func(i int) {
		t := types[i]
		local := map[uint64]struct{}{}
		lf := map[string]int{}
		var evals int64
		cs := e.caseOpts(t, n, 1, false, e.Thorough)
		mem := []string{}
		for ci, o := range cs {
			g := e.Gen(o, t.QName, ci)
			g.Mem = &mem
			v := g.Value(t)
			w, err, p := EncodeFresh(val.Clone(v))
			if err != nil || p != nil {
				lf["skipped:encode-failed(C01)"]++
				continue
			}
			if len(w) == 0 {
				lf["images-with-no-cut(empty encoding)"]++
				continue
			}
			// the complete image first: it must decode (and whatever a decoder remembers across messages is now primed)
			if err, p := LibDecode(e.C.New[t.QName](), bytes.NewBuffer(append([]byte(nil), w...))); err != nil || p != nil {
				lf["skipped:full-image-does-not-decode(C01)"]++
				continue
			}
			evals++
			var cuts []int
			if len(w) <= 4096 {
				for k := 0; k < len(w); k++ {
					cuts = append(cuts, k)
				}
			} else {
				seen := map[int]bool{}
				add := func(k int) {
					if k >= 0 && k < len(w) && !seen[k] {
						seen[k] = true
						cuts = append(cuts, k)
					}
				}
				if _, toks, err := e.C.EncodeTok(t, val.Clone(v)); err == nil {
					// every decode of a long prefix costs time proportional to it: spend at most ~16 MB of
					// decoded bytes on the token boundaries of one image
					budget := 16 << 20 / len(w)
					if budget < 64 {
						budget = 64
					}
					step := 1
					if len(toks) > budget {
						step = len(toks) / budget
					}
					for ti := 0; ti < len(toks); ti += step {
						add(toks[ti].Off - 1)
						add(toks[ti].Off)
						add(toks[ti].Off + 1)
					}
				}
				nr := 256
				if len(w) > 64<<10 {
					nr = 32
				}
				for k := 0; k < nr; k++ {
					add(g.R.Intn(len(w)))
				}
				add(len(w) - 1)
				lf["long-images-cut-at-token-boundaries"]++
			}
			for _, k := range cuts {
				d := e.C.New[t.QName]()
				err, p := LibDecode(d, bytes.NewBuffer(w[:k:k]))
				evals++
				if p != nil {
					r.Violate("C11/panic/"+t.QName, "C11/panic/"+t.QName, map[string]any{"type": t.QName, "case": ci, "cut": k, "image_len": len(w), "image": val.Hex(w, 200), "panic": p.Value, "stack": p.Stack})
					break
				}
				if err == nil {
					r.Violate("C11/prefix-accepted/"+t.QName, "C11/prefix-accepted/"+t.QName, map[string]any{"type": t.QName, "case": ci, "cut": k, "image_len": len(w), "image": val.Hex(w, 200), "half_decoded": val.Summary(d, 300)})
					break
				}
			}
			lf["cuts"] += len(cuts)
			local[val.Hash(string(w))] = struct{}{}
			if ci == 0 && i%50 == 0 {
				r.Sample(map[string]any{"type": t.QName, "image_len": len(w), "cuts_tried": len(cuts), "verdict": "every strict prefix rejected"})
			}
		}
		r.Evals(evals)
		r.DistinctMany(local)
		acc.merge(lf)
	})
	_ = empty
	r.Set("observations", acc.m)
	if !isAbsentChild(e) {
		runAbsentChild(e) // a strict prefix is a strict prefix whether or not a checksum service is registered
	}
	_ = fmt.Sprint
}
