package checks

import (
	"bytes"
	"fmt"

	"verif/internal/gen"
	"verif/internal/ref"
	"verif/internal/schema"
	"verif/internal/val"
)

func init() { Registry["C08"] = c08 }

// expectedReencode returns what re-encoding must produce for the consumed bytes of an accepted
// image: the same bytes, except that self-computed length/checksum tokens hold their correct values.
func expectedReencode(t *schema.Type, consumed []byte) ([]byte, bool) {
	fi := frameOf(t)
	if fi == nil {
		return consumed, false
	}
	out := append([]byte(nil), consumed...)
	w := fi.trailer()
	if len(out) < fi.hdr+w {
		return out, false
	}
	copy(out[fi.lenOff:], refInt(4, uint64(len(out)-fi.hdr-w), t.LE))
	if w > 0 {
		x, _ := ref.Checksum(fi.alg, out[:len(out)-w])
		copy(out[len(out)-w:], refInt(w, x, t.LE))
	}
	return out, !bytes.Equal(out, consumed)
}

func c08(e *Env) {
	r := e.R
	r.Rule("every type × images the library's encoder cannot produce: (1) token-by-token wire images built from the pinned schema (fixed text = arbitrary bytes: all-pad, pad on both sides, pad on the far side, interior NUL/space, pad runs, non-UTF-8; numbers = boundary bit patterns incl. -0/sNaN; small counts; registered discriminators; computed fields correct or garbage), (2) valid images with 1..8 random bit flips / byte substitutions, each followed by 0..32 random trailing bytes, (3) reference-encoder images whose list counts / text lengths sit exactly at the prefix maximum (65 535, 255). Only images the decoder accepts are judged. distinct_nontrivial = distinct accepted non-empty consumed byte strings")
	r.Explain("Oracle: Encode(Decode(image)) into a fresh buffer == the bytes the decoder consumed, byte for byte; for frames with self-computed length/checksum those tokens (only) must hold the correct values for the re-encoded frame, so a frame whose incoming computed fields were already correct comes back identical (counted separately).")
	r.Assume("acceptance sets are sampled, not enumerated")
	types := e.Types()
	n := e.N(800, 250000)
	acc := newFeatAcc()
	e.Par(len(types), func(i int) {
		t := types[i]
		local := map[uint64]struct{}{}
		lf := map[string]int{}
		var evals int64
		cs := e.caseOpts(t, n, 2, false, false)
		firstMax := len(cs)
		if hasList(e, t, map[string]bool{}) {
			// images (rendered by the reference encoder, not by the library) whose counts / text lengths sit exactly
			// at the largest value their prefix can carry: a decoder accepts them, so the encoder must reproduce them
			cs = append(cs, &gen.Opts{NoNilBody: true, Lens: []int{65535}, StrLens: []int{0, 1, 3}}, &gen.Opts{NoNilBody: true, Lens: []int{1, 2}, StrLens: []int{65535}}, &gen.Opts{NoNilBody: true, Lens: []int{255}, StrLens: []int{255}})
		}
		for ci, o := range cs {
			o.Feat = lf
			g := e.Gen(o, t.QName, ci)
			var img []byte
			kind := "wire-level"
			if ci >= firstMax {
				kind = "reference-image-at-prefix-maximum"
				w, err := e.C.Encode(t, g.Value(t))
				if err != nil {
					continue
				}
				img = w
			} else if ci%3 == 2 {
				kind = "mutated-valid"
				v := g.Value(t)
				w, err, p := EncodeFresh(v)
				if err != nil || p != nil {
					continue
				}
				img = append([]byte(nil), w...)
				if len(img) > 0 {
					for k := 0; k <= g.R.Intn(8); k++ {
						pos := g.R.Intn(len(img))
						if g.R.Bool() {
							img[pos] ^= 1 << uint(g.R.Intn(8))
						} else {
							img[pos] = byte(g.R.U64())
						}
					}
				}
			} else {
				img = g.Wire(t)
			}
			full := append(append([]byte(nil), img...), g.R.Bytes(g.R.Intn(33))...)
			buf := bytes.NewBuffer(append([]byte(nil), full...))
			d := e.C.New[t.QName]()
			err, p := LibDecode(d, buf)
			evals++
			lf["generated:"+kind]++
			if p != nil {
				r.Violate("C08/decode-panic/"+t.QName, "C08/decode-panic/"+t.QName, map[string]any{"type": t.QName, "case": ci, "image": val.Hex(full, 200), "panic": p.Value})
				continue
			}
			if err != nil {
				lf["rejected:"+kind]++
				continue
			}
			lf["accepted:"+kind]++
			consumed := full[:len(full)-buf.Len()]
			want, patched := expectedReencode(t, consumed)
			if frameOf(t) != nil {
				if patched {
					lf["frames:computed-fields-corrected"]++
				} else {
					lf["frames:computed-fields-already-correct"]++
				}
			}
			w2, err, p := EncodeFresh(d)
			evals++
			det := func(extra map[string]any) map[string]any {
				m := map[string]any{"type": t.QName, "case": ci, "image_kind": kind, "consumed": val.Hex(consumed, 200), "decoded": val.Summary(d, 400)}
				for k, x := range extra {
					m[k] = x
				}
				return m
			}
			if p != nil || err != nil {
				r.Violate("C08/re-encode-failed/"+t.QName, "C08/re-encode-failed/"+t.QName, det(map[string]any{"error": fmt.Sprint(err), "panic": fmt.Sprint(p)}))
				continue
			}
			if !bytes.Equal(w2, want) {
				_, toks, _ := e.C.EncodeTok(t, d)
				dd := firstDiff(w2, want, toks)
				dd["re_encoded"] = val.Hex(w2, 200)
				r.Violate("C08/re-encode-differs/"+t.QName, "C08/re-encode-differs/"+t.QName, det(dd))
				continue
			}
			if len(consumed) > 0 {
				local[val.Hash(string(consumed))] = struct{}{}
			}
			if r.NumSamples() < 6 && kind == "wire-level" && ci == 3 && i%30 == 0 {
				r.Sample(map[string]any{"type": t.QName, "image_kind": kind, "consumed": val.Hex(consumed, 64), "decoded": val.Summary(d, 160), "verdict": "re-encoded bytes identical"})
			}
		}
		r.Evals(evals)
		r.DistinctMany(local)
		acc.merge(lf)
	})
	r.Set("observations_and_lossy_looking_features", acc.m)
}
