package checks

import (
	"bytes"
	"fmt"

	"github.com/xinchentechnote/fin-proto-go/codec"

	"verif/internal/gen"
	"verif/internal/schema"
	"verif/internal/val"
)

func init() { Registry["C07"] = c07 }

var tailNames = []string{"empty", "random-bytes", "another-valid-image", "the-same-image-again"}

func c07(e *Env) {
	r := e.R
	if isAbsentChild(e) {
		codec.Clear()
	}
	r.Rule("every type × canonical values (as C01) × 4 trailing byte strings {empty, 1..64 random bytes, another valid image of the type, the image itself}; plus streams: 2..30 frames of mixed body types per frame type, per-module sequences of body messages in a known type order, once concatenated from individual encodings, once produced through one shared send buffer, and once decoded into one reused receiver object per type (a read loop). distinct_nontrivial = distinct (value hash, tail kind) with a non-empty image + distinct streams")
	r.Explain("Oracle: after Decode(image‖tail) the buffer's unread bytes are exactly tail, byte for byte, and the decoded message ≡ the original (computed fields = their correct values). Streams: n successive decodes return the n originals in order and leave the buffer empty.")
	types := e.Types()
	n := e.N(200, 40000)
	acc := newFeatAcc()
	e.Par(len(types), func(i int) {
		t := types[i]
		local := map[uint64]struct{}{}
		lf := map[string]int{}
		var evals int64
		cs := e.caseOpts(t, n, 1, false, false)
		var prev []byte
		for ci, o := range cs {
			g := e.Gen(o, t.QName, ci)
			v := g.Value(t)
			w, err, p := EncodeFresh(val.Clone(v))
			if err != nil || p != nil {
				lf["skipped:encode-failed(C01)"]++
				continue
			}
			want := withCorrectComputed(t, v, w)
			hv := val.Hash(v)
			for tk := 0; tk < 4; tk++ {
				var tail []byte
				switch tk {
				case 1:
					tail = g.R.Bytes(1 + g.R.Intn(64))
				case 2:
					tail = prev
					if len(tail) == 0 {
						tail = g.R.Bytes(7)
					}
				case 3:
					tail = w
				}
				full := append(append([]byte(nil), w...), tail...)
				buf := bytes.NewBuffer(full)
				d := e.C.New[t.QName]()
				err, p := LibDecode(d, buf)
				evals++
				det := func(extra map[string]any) map[string]any {
					m := map[string]any{"type": t.QName, "case": ci, "tail_kind": tailNames[tk], "image_len": len(w), "tail_len": len(tail), "image": val.Hex(w, 160)}
					for k, x := range extra {
						m[k] = x
					}
					return m
				}
				if p != nil || err != nil {
					r.Violate("C07/decode-failed/"+t.QName, "C07/decode-failed/"+t.QName, det(map[string]any{"error": fmt.Sprint(err), "panic": fmt.Sprint(p)}))
					continue
				}
				if !bytes.Equal(buf.Bytes(), tail) {
					r.Violate("C07/remainder/"+t.QName, "C07/remainder/"+t.QName, det(map[string]any{"left_len": buf.Len(), "left": val.Hex(buf.Bytes(), 64), "expected_tail": val.Hex(tail, 64)}))
					continue
				}
				if diff := val.Equal(want, d); diff != "" {
					r.Violate("C07/value/"+t.QName, "C07/value/"+t.QName, det(map[string]any{"first_difference": diff}))
					continue
				}
				lf["tail:"+tailNames[tk]]++
				if len(w) > 0 {
					local[hv+uint64(tk)] = struct{}{}
				}
			}
			prev = w
			if ci == 0 && i%50 == 0 {
				r.Sample(map[string]any{"type": t.QName, "image": val.Hex(w, 48), "tails": tailNames, "verdict": "remainder == tail for all four"})
			}
		}
		r.Evals(evals)
		r.DistinctMany(local)
		acc.merge(lf)
	})
	// ---- streams
	if e.Only == "" {
		nstream := e.N(2000, 250000)
		var frames []*schema.Type
		byMod := map[string][]*schema.Type{}
		for _, t := range e.S.Order {
			for _, f := range t.Fields {
				if f.Kind == "union" && f.Key == "MsgType" {
					frames = append(frames, t)
				}
			}
			byMod[t.Pkg] = append(byMod[t.Pkg], t)
		}
		mods := sortedKeys(byMod)
		e.Par(nstream, func(si int) {
			rng := gen.NewRng(e.Seed, "C07", "stream", si)
			g := &gen.Gen{S: e.S, C: e.C, R: rng, O: &gen.Opts{}}
			n := 2 + rng.Intn(29)
			var ts []*schema.Type
			if si%2 == 0 {
				ft := frames[rng.Intn(len(frames))]
				for k := 0; k < n; k++ {
					ts = append(ts, ft) // body type chosen by the generator (random registered key)
				}
			} else {
				pool := byMod[mods[rng.Intn(len(mods))]]
				for k := 0; k < n; k++ {
					ts = append(ts, pool[rng.Intn(len(pool))])
				}
			}
			shared := new(bytes.Buffer)
			var concat []byte
			var wants []any
			ok := true
			for _, t := range ts {
				v := g.Value(t)
				w, err, p := EncodeFresh(val.Clone(v))
				if err != nil || p != nil {
					ok = false
					break
				}
				if err, p := LibEncode(val.Clone(v), shared); err != nil || p != nil {
					ok = false
					break
				}
				concat = append(concat, w...)
				wants = append(wants, withCorrectComputed(t, v, w))
			}
			if !ok {
				return
			}
			names := make([]string, len(ts))
			for k, t := range ts {
				names[k] = t.QName
			}
			for variant, stream := range [][]byte{concat, append([]byte(nil), shared.Bytes()...), concat} {
				buf := bytes.NewBuffer(append([]byte(nil), stream...))
				r.Evals(1)
				bad := false
				reused := map[string]any{} // variant 2: a read loop that keeps one receiver object per type
				for k, t := range ts {
					d := e.C.New[t.QName]()
					if variant == 2 {
						if old, ok := reused[t.QName]; ok {
							d = old
						} else {
							reused[t.QName] = d
						}
					}
					err, p := LibDecode(d, buf)
					if err != nil || p != nil {
						r.Violate("C07/stream-decode-failed", "C07/stream-decode-failed", map[string]any{"stream": si, "position": k, "types": names, "variant": variant, "error": fmt.Sprint(err, p)})
						bad = true
						break
					}
					if diff := val.Equal(wants[k], d); diff != "" {
						r.Violate("C07/stream-value", "C07/stream-value", map[string]any{"stream": si, "position": k, "types": names, "variant": variant, "first_difference": diff})
						bad = true
						break
					}
				}
				if !bad && buf.Len() != 0 {
					r.Violate("C07/stream-leftover", "C07/stream-leftover", map[string]any{"stream": si, "types": names, "variant": variant, "left": buf.Len()})
					bad = true
				}
				if !bad {
					acc.merge(map[string]int{[]string{"streams-concatenated", "streams-through-shared-buffer", "streams-into-one-reused-receiver-per-type"}[variant]: 1, "stream-messages": len(ts)})
				}
			}
			r.Distinct(val.Hash(fmt.Sprint(si, names)))
			if si < 2 {
				r.Sample(map[string]any{"stream": si, "messages": names, "bytes": len(concat), "verdict": "n decodes ≡ n originals, buffer empty"})
			}
		})
	}
	r.Set("observations", acc.m)
	if !isAbsentChild(e) {
		runAbsentChild(e) // consumption must not depend on whether a checksum service is registered
	}
}
