package checks

import (
	"bytes"
	"fmt"
	"math"
	"reflect"
	"strings"

	"github.com/xinchentechnote/fin-proto-go/codec"
	"golang.org/x/exp/constraints"

	"verif/internal/gen"
	"verif/internal/mon"
	"verif/internal/ref"
	"verif/internal/schema"
	"verif/internal/val"
)

func init() { Registry["C03"] = c03 }

// seg is one token of a primitive's output: width and whether it is a number.
type seg struct {
	w   int
	num bool
}

func reverseTokens(b []byte, segs []seg) ([]byte, bool) {
	out := make([]byte, 0, len(b))
	off := 0
	nonPal := false
	for _, s := range segs {
		if off+s.w > len(b) {
			return nil, false
		}
		tok := b[off : off+s.w]
		if s.num && s.w > 1 {
			for i := s.w - 1; i >= 0; i-- {
				out = append(out, tok[i])
			}
			for i := 0; i < s.w/2; i++ {
				if tok[i] != tok[s.w-1-i] {
					nonPal = true
				}
			}
		} else {
			out = append(out, tok...)
		}
		off += s.w
	}
	if off != len(b) {
		return nil, false
	}
	return out, nonPal
}

type primCtx struct {
	e      *Env
	rng    *gen.Rng
	g      *gen.Gen
	n      int
	pairs  map[string]int
	nonPal int64
	evals  int64
}

func sizeOf[T any]() int { var z T; return int(reflect.TypeOf(z).Size()) }

// defined (named) types: the generic primitives accept them through their ~ constraints
type (
	namedI64   int64
	namedU16   uint16
	namedF32   float32
	namedPfx16 uint16
	namedPfx8  uint8
)

func kindOf[K codec.BasicType]() string {
	var z K
	switch reflect.TypeOf(z).Kind() {
	case reflect.Int8:
		return "i8"
	case reflect.Int16:
		return "i16"
	case reflect.Int32:
		return "i32"
	case reflect.Int64:
		return "i64"
	case reflect.Uint8:
		return "u8"
	case reflect.Uint16:
		return "u16"
	case reflect.Uint32:
		return "u32"
	case reflect.Uint64:
		return "u64"
	case reflect.Float32:
		return "f32"
	}
	return "f64"
}

// elemName names an element type in pair names: the schema kind, plus the Go name for defined types.
func elemName[K codec.BasicType]() string {
	var z K
	if n := reflect.TypeOf(z).Name(); strings.HasPrefix(n, "named") {
		return n + "(" + kindOf[K]() + ")"
	}
	return kindOf[K]()
}

// drawBits draws a bit pattern for element type K.  For defined float types signalling NaNs are made
// quiet: encoding/binary handles `type X float32` through reflection, whose Float() widens to float64
// and thereby quiets them - a standard-library effect that has nothing to do with byte order.
func drawBits[K codec.BasicType](c *primCtx) uint64 {
	x := c.g.ScalarBits(kindOf[K]())
	var z K
	if _, ok := any(z).(namedF32); ok && x&0x7F800000 == 0x7F800000 && x&0x007FFFFF != 0 {
		x |= 0x00400000
	}
	return x
}

func fromBits[K codec.BasicType](x uint64) K {
	var z K
	switch any(z).(type) {
	case namedI64:
		return any(namedI64(x)).(K)
	case namedU16:
		return any(namedU16(x)).(K)
	case namedF32:
		return any(namedF32(math.Float32frombits(uint32(x)))).(K)
	case float32:
		return any(math.Float32frombits(uint32(x))).(K)
	case float64:
		return any(math.Float64frombits(x)).(K)
	case int8:
		return any(int8(x)).(K)
	case int16:
		return any(int16(x)).(K)
	case int32:
		return any(int32(x)).(K)
	case int64:
		return any(int64(x)).(K)
	case uint8:
		return any(uint8(x)).(K)
	case uint16:
		return any(uint16(x)).(K)
	case uint32:
		return any(uint32(x)).(K)
	}
	return any(x).(K)
}

func bitsOf[K codec.BasicType](v K) uint64 {
	switch x := any(v).(type) {
	case namedI64:
		return uint64(x)
	case namedU16:
		return uint64(x)
	case namedF32:
		return uint64(math.Float32bits(float32(x)))
	case float32:
		return uint64(math.Float32bits(x))
	case float64:
		return math.Float64bits(x)
	case int8:
		return uint64(uint8(x))
	case int16:
		return uint64(uint16(x))
	case int32:
		return uint64(uint32(x))
	case int64:
		return uint64(x)
	case uint8:
		return uint64(x)
	case uint16:
		return uint64(x)
	case uint32:
		return uint64(x)
	case uint64:
		return x
	}
	return 0
}

func refInt(w int, x uint64, le bool) []byte {
	out := make([]byte, w)
	for i := 0; i < w; i++ {
		sh := uint(8 * i)
		if !le {
			sh = uint(8 * (w - 1 - i))
		}
		out[i] = byte(x >> sh)
	}
	return out
}

// judgePair applies the oracle to one (BE bytes, LE bytes) observation.
func (c *primCtx) judgePair(name string, be, le []byte, beErr, leErr error, p1, p2 *mon.Panic, segs []seg, refBE []byte, what string) bool {
	c.evals++
	c.pairs[name]++
	r := c.e.R
	det := map[string]any{"primitive": name, "value": what, "be_bytes": val.Hex(be, 64), "le_bytes": val.Hex(le, 64)}
	if p1 != nil || p2 != nil {
		det["panic"] = fmt.Sprint(p1, p2)
		r.Violate("C03/prim-panic/"+name, "C03/prim-panic/"+name, det)
		return false
	}
	if beErr != nil || leErr != nil {
		det["errors"] = fmt.Sprint(beErr, leErr)
		r.Violate("C03/prim-error/"+name, "C03/prim-error/"+name, det)
		return false
	}
	want, nonPal := reverseTokens(be, segs)
	if want == nil {
		det["reason"] = "big-endian output does not have the expected token structure"
		r.Violate("C03/prim-structure/"+name, "C03/prim-structure/"+name, det)
		return false
	}
	if nonPal {
		c.nonPal++
	}
	if !bytes.Equal(want, le) {
		det["expected_le_bytes"] = val.Hex(want, 64)
		r.Violate("C03/prim-le-not-reversed-be/"+name, "C03/prim-le-not-reversed-be/"+name, det)
		return false
	}
	if refBE != nil && !bytes.Equal(be, refBE) {
		det["expected_be_bytes"] = val.Hex(refBE, 64)
		r.Violate("C03/prim-be-rendering/"+name, "C03/prim-be-rendering/"+name, det)
		return false
	}
	return true
}

func pname(base string, ts ...string) string {
	s := base + "["
	for i, t := range ts {
		if i > 0 {
			s += ","
		}
		s += t
	}
	return s + "]"
}

func prefName[T constraints.Unsigned]() string {
	var z T
	if n := reflect.TypeOf(z).Name(); !strings.HasPrefix(n, "uint") {
		return fmt.Sprintf("%s(uint%d)", n, sizeOf[T]()*8)
	}
	return fmt.Sprintf("uint%d", sizeOf[T]()*8)
}

func listLen[T constraints.Unsigned](c *primCtx) int {
	max := 300
	if sizeOf[T]() == 1 {
		max = 255
	}
	ls := []int{0, 1, 2, 3, 7, 100, 255, 256, 258}
	l := ls[c.rng.Intn(len(ls))]
	if l > max {
		l = max
	}
	return l
}

func primScalar[K codec.BasicType](c *primCtx) {
	name := pname("WriteBasicType/LE", elemName[K]())
	for i := 0; i < c.n; i++ {
		v := fromBits[K](drawBits[K](c))
		var b1, b2 bytes.Buffer
		e1, p1 := mon.Call(func() error { return codec.WriteBasicType(&b1, v) })
		e2, p2 := mon.Call(func() error { return codec.WriteBasicTypeLE(&b2, v) })
		w := sizeOf[K]()
		if !c.judgePair(name, b1.Bytes(), b2.Bytes(), e1, e2, p1, p2, []seg{{w, true}}, refInt(w, bitsOf(v), false), fmt.Sprintf("%#x", bitsOf(v))) {
			continue
		}
		r1, e1 := codec.ReadBasicType[K](bytes.NewBuffer(b1.Bytes()))
		r2, e2 := codec.ReadBasicTypeLE[K](bytes.NewBuffer(b2.Bytes()))
		if e1 != nil || e2 != nil || bitsOf(r1) != bitsOf(v) || bitsOf(r2) != bitsOf(v) {
			c.e.R.Violate("C03/prim-read/"+name, "C03/prim-read/"+name, map[string]any{"primitive": name, "value": fmt.Sprintf("%#x", bitsOf(v)), "read_be": fmt.Sprintf("%#x %v", bitsOf(r1), e1), "read_le": fmt.Sprintf("%#x %v", bitsOf(r2), e2)})
		}
	}
}

func primBasicList[T constraints.Unsigned, K codec.BasicType](c *primCtx) {
	name := pname("WriteBasicTypeList/LE", prefName[T](), elemName[K]())
	for i := 0; i < c.n; i++ {
		n := listLen[T](c)
		vs := make([]K, n)
		for j := range vs {
			vs[j] = fromBits[K](drawBits[K](c))
		}
		var b1, b2 bytes.Buffer
		e1, p1 := mon.Call(func() error { return codec.WriteBasicTypeList[T](&b1, vs) })
		e2, p2 := mon.Call(func() error { return codec.WriteBasicTypeListLE[T](&b2, vs) })
		segs := []seg{{sizeOf[T](), true}}
		refBE := refInt(sizeOf[T](), uint64(n), false)
		for _, v := range vs {
			segs = append(segs, seg{sizeOf[K](), true})
			refBE = append(refBE, refInt(sizeOf[K](), bitsOf(v), false)...)
		}
		if !c.judgePair(name, b1.Bytes(), b2.Bytes(), e1, e2, p1, p2, segs, refBE, fmt.Sprintf("%d elements", n)) {
			continue
		}
		r1, e1 := codec.ReadBasicTypeList[T, K](bytes.NewBuffer(b1.Bytes()))
		r2, e2 := codec.ReadBasicTypeListLE[T, K](bytes.NewBuffer(b2.Bytes()))
		ok := e1 == nil && e2 == nil && len(r1) == n && len(r2) == n
		for j := 0; ok && j < n; j++ {
			ok = bitsOf(r1[j]) == bitsOf(vs[j]) && bitsOf(r2[j]) == bitsOf(vs[j])
		}
		if !ok {
			c.e.R.Violate("C03/prim-read/"+name, "C03/prim-read/"+name, map[string]any{"primitive": name, "elements": n, "errors": fmt.Sprint(e1, e2)})
		}
	}
}

func primString[T constraints.Unsigned](c *primCtx) {
	name := pname("WriteString/LE", prefName[T]())
	for i := 0; i < c.n; i++ {
		s := c.g.Text(listLen[T](c))
		var b1, b2 bytes.Buffer
		e1, p1 := mon.Call(func() error { return codec.WriteString[T](&b1, s) })
		e2, p2 := mon.Call(func() error { return codec.WriteStringLE[T](&b2, s) })
		segs := []seg{{sizeOf[T](), true}, {len(s), false}}
		refBE := append(refInt(sizeOf[T](), uint64(len(s)), false), s...)
		if !c.judgePair(name, b1.Bytes(), b2.Bytes(), e1, e2, p1, p2, segs, refBE, fmt.Sprintf("%d-byte text", len(s))) {
			continue
		}
		r1, e1 := codec.ReadString[T](bytes.NewBuffer(b1.Bytes()))
		r2, e2 := codec.ReadStringLE[T](bytes.NewBuffer(b2.Bytes()))
		if e1 != nil || e2 != nil || r1 != s || r2 != s {
			c.e.R.Violate("C03/prim-read/"+name, "C03/prim-read/"+name, map[string]any{"primitive": name, "len": len(s), "errors": fmt.Sprint(e1, e2)})
		}
	}
}

func primFixedList[T constraints.Unsigned](c *primCtx) {
	name := pname("WriteFixedStringListWithPadding/LE", prefName[T]())
	name2 := pname("WriteFixedStringList/LE", prefName[T]())
	for i := 0; i < c.n; i++ {
		n := listLen[T](c)
		if n > 40 {
			n = 1 + n%40
		}
		// width >= 1: with zero-width elements a reader that misreads the count (the very defect this pair is
		// after) never runs out of input and loops until memory is exhausted; zero-width fields are C13's
		width := 1 + c.rng.Intn(11)
		pad := byte([]byte{' ', '0', 0, 'x'}[c.rng.Intn(4)])
		left := c.rng.Bool()
		vs := make([]string, n)
		for j := range vs {
			vs[j] = c.g.FixText(width, pad, left)
		}
		var b1, b2 bytes.Buffer
		e1, p1 := mon.Call(func() error { return codec.WriteFixedStringListWithPadding[T](&b1, vs, width, rune(pad), left) })
		e2, p2 := mon.Call(func() error { return codec.WriteFixedStringListWithPaddingLE[T](&b2, vs, width, rune(pad), left) })
		segs := []seg{{sizeOf[T](), true}}
		refBE := refInt(sizeOf[T](), uint64(n), false)
		for _, s := range vs {
			segs = append(segs, seg{width, false})
			refBE = append(refBE, ref.FixWrite(s, width, pad, left)...)
		}
		if c.judgePair(name, b1.Bytes(), b2.Bytes(), e1, e2, p1, p2, segs, refBE, fmt.Sprintf("%d texts of width %d", n, width)) {
			r1, e1 := codec.ReadFixedStringListTrimPadding[T](bytes.NewBuffer(b1.Bytes()), width, rune(pad), left)
			r2, e2 := codec.ReadFixedStringListTrimPaddingLE[T](bytes.NewBuffer(b2.Bytes()), width, rune(pad), left)
			if e1 != nil || e2 != nil || val.Equal(r1, r2) != "" || len(r1) != n {
				c.e.R.Violate("C03/prim-read/"+name, "C03/prim-read/"+name, map[string]any{"primitive": name, "errors": fmt.Sprint(e1, e2), "diff": val.Equal(r1, r2)})
			}
		}
		// default-padding wrappers (space, right)
		var b3, b4 bytes.Buffer
		e3, p3 := mon.Call(func() error { return codec.WriteFixedStringList[T](&b3, vs, width) })
		e4, p4 := mon.Call(func() error { return codec.WriteFixedStringListLE[T](&b4, vs, width) })
		refBE = refInt(sizeOf[T](), uint64(n), false)
		for _, s := range vs {
			refBE = append(refBE, ref.FixWrite(s, width, ' ', false)...)
		}
		if c.judgePair(name2, b3.Bytes(), b4.Bytes(), e3, e4, p3, p4, segs, refBE, fmt.Sprintf("%d texts of width %d", n, width)) {
			r1, e1 := codec.ReadFixedStringList[T](bytes.NewBuffer(b3.Bytes()), width)
			r2, e2 := codec.ReadFixedStringListLE[T](bytes.NewBuffer(b4.Bytes()), width)
			if e1 != nil || e2 != nil || val.Equal(r1, r2) != "" || len(r1) != n {
				c.e.R.Violate("C03/prim-read/"+name2, "C03/prim-read/"+name2, map[string]any{"primitive": name2, "errors": fmt.Sprint(e1, e2), "diff": val.Equal(r1, r2)})
			}
		}
	}
}

func primStringList[T constraints.Unsigned, K constraints.Unsigned](c *primCtx) {
	name := pname("WriteStringList/LE", prefName[T](), prefName[K]())
	for i := 0; i < c.n; i++ {
		n := listLen[T](c)
		if n > 30 {
			n = 1 + n%30
		}
		vs := make([]string, n)
		segs := []seg{{sizeOf[T](), true}}
		refBE := refInt(sizeOf[T](), uint64(n), false)
		for j := range vs {
			vs[j] = c.g.Text(listLen[K](c))
			segs = append(segs, seg{sizeOf[K](), true}, seg{len(vs[j]), false})
			refBE = append(refBE, refInt(sizeOf[K](), uint64(len(vs[j])), false)...)
			refBE = append(refBE, vs[j]...)
		}
		var b1, b2 bytes.Buffer
		e1, p1 := mon.Call(func() error { return codec.WriteStringList[T, K](&b1, vs) })
		e2, p2 := mon.Call(func() error { return codec.WriteStringListLE[T, K](&b2, vs) })
		if !c.judgePair(name, b1.Bytes(), b2.Bytes(), e1, e2, p1, p2, segs, refBE, fmt.Sprintf("%d texts", n)) {
			continue
		}
		r1, e1 := codec.ReadStringList[T, K](bytes.NewBuffer(b1.Bytes()))
		r2, e2 := codec.ReadStringListLE[T, K](bytes.NewBuffer(b2.Bytes()))
		if e1 != nil || e2 != nil || val.Equal(r1, vs) != "" || val.Equal(r2, vs) != "" {
			c.e.R.Violate("C03/prim-read/"+name, "C03/prim-read/"+name, map[string]any{"primitive": name, "errors": fmt.Sprint(e1, e2)})
		}
	}
}

// rawObj is a harness element type for the object-list primitives: it writes/reads 3 opaque bytes.
type rawObj struct{ b [3]byte }

func (o *rawObj) Encode(buf *bytes.Buffer) error { buf.Write(o.b[:]); return nil }
func (o *rawObj) Decode(buf *bytes.Buffer) error {
	n, _ := buf.Read(o.b[:])
	if n != 3 {
		return fmt.Errorf("short")
	}
	return nil
}

func primObjList[T constraints.Unsigned](c *primCtx) {
	name := pname("WriteObjectList/LE", prefName[T]())
	for i := 0; i < c.n; i++ {
		n := listLen[T](c)
		vs := make([]*rawObj, n)
		segs := []seg{{sizeOf[T](), true}}
		refBE := refInt(sizeOf[T](), uint64(n), false)
		for j := range vs {
			vs[j] = &rawObj{}
			copy(vs[j].b[:], c.rng.Bytes(3))
			segs = append(segs, seg{3, false})
			refBE = append(refBE, vs[j].b[:]...)
		}
		var b1, b2 bytes.Buffer
		e1, p1 := mon.Call(func() error { return codec.WriteObjectList[T](&b1, vs) })
		e2, p2 := mon.Call(func() error { return codec.WriteObjectListLE[T](&b2, vs) })
		if !c.judgePair(name, b1.Bytes(), b2.Bytes(), e1, e2, p1, p2, segs, refBE, fmt.Sprintf("%d objects", n)) {
			continue
		}
		// a list with nil entries is outside the supported domain (the pinned code panics on it); should
		// a writer start to tolerate them, whatever it emits must still differ between the two variants
		// by byte reversal of the count only
		if n >= 2 && i%8 == 0 {
			ws := append([]*rawObj(nil), vs...)
			ws[c.rng.Intn(n)] = nil
			var n1, n2 bytes.Buffer
			_, q1 := mon.Call(func() error { return codec.WriteObjectList[T](&n1, ws) })
			_, q2 := mon.Call(func() error { return codec.WriteObjectListLE[T](&n2, ws) })
			if q1 == nil && q2 == nil && n1.Len() == n2.Len() && n1.Len() >= sizeOf[T]() {
				w := sizeOf[T]()
				rev := append([]byte(nil), n1.Bytes()...)
				for k := 0; k < w/2; k++ {
					rev[k], rev[w-1-k] = rev[w-1-k], rev[k]
				}
				c.evals++
				if !bytes.Equal(rev, n2.Bytes()) {
					c.e.R.Violate("C03/prim-le-not-reversed-be/"+name+"/nil-entries", "C03/prim-le-not-reversed-be/"+name, map[string]any{"primitive": name, "value": "object list with a nil entry", "be_bytes": val.Hex(n1.Bytes(), 32), "le_bytes": val.Hex(n2.Bytes(), 32)})
				}
			}
		}
		r1, e1 := codec.ReadObjectList[T](bytes.NewBuffer(b1.Bytes()), func() *rawObj { return &rawObj{} })
		r2, e2 := codec.ReadObjectListLE[T](bytes.NewBuffer(b2.Bytes()), func() *rawObj { return &rawObj{} })
		ok := e1 == nil && e2 == nil && len(r1) == n && len(r2) == n
		for j := 0; ok && j < n; j++ {
			ok = r1[j].b == vs[j].b && r2[j].b == vs[j].b
		}
		if !ok {
			c.e.R.Violate("C03/prim-read/"+name, "C03/prim-read/"+name, map[string]any{"primitive": name, "errors": fmt.Sprint(e1, e2)})
		}
	}
}

func primAllPrefixesBasic[K codec.BasicType](c *primCtx) {
	primScalar[K](c)
	primBasicList[uint8, K](c)
	primBasicList[uint16, K](c)
	primBasicList[uint32, K](c)
	primBasicList[uint64, K](c)
}

func primStringListK[T constraints.Unsigned](c *primCtx) {
	primStringList[T, uint8](c)
	primStringList[T, uint16](c)
	primStringList[T, uint32](c)
	primStringList[T, uint64](c)
}

func primPerPrefix[T constraints.Unsigned](c *primCtx) {
	primString[T](c)
	primFixedList[T](c)
	primStringListK[T](c)
	primObjList[T](c)
}

// guard runs one family of primitive pairs; a panic inside a reader or writer on a well-formed value or image is
// reported (the pair cannot have agreed) instead of taking the monitor down.
func (c *primCtx) guard(name string, f func()) {
	if _, p := mon.Call(func() error { f(); return nil }); p != nil {
		c.e.R.Violate("C03/primitive-panicked/"+name, "C03/primitive-panicked", map[string]any{"family": name, "panic": p.Value, "stack": p.Stack})
	}
}

func c03(e *Env) {
	r := e.R
	r.Rule("(a) every big/little-endian primitive pair of codec/binary_codec.go instantiated for every prefix type (u8,u16,u32,u64) and every element type (10 numeric types), and again with defined (named) element and prefix types, which the ~ constraints admit: case i is a pure function of (seed,'C03',pair,i), boundary-biased numbers, list lengths 0..258, hostile text; (b) every message type: canonical values as in C01, tokenised by the pinned schema. distinct_nontrivial = (a) pairs of outputs containing at least one multi-byte numeric token whose byte reversal differs from itself + (b) distinct non-zero values whose image contains such a token")
	r.Explain("Oracle (a): LE output == BE output with the bytes of every integer/float token reversed and every text byte unchanged; BE output == own big-endian rendering; ReadLE(LE bytes) ≡ ReadBE(BE bytes) ≡ value. Oracle (b): every numeric token of width > 1 in lib.Encode(v) — scalar, list count, list element, text-length prefix, self-computed length, self-computed checksum — is rendered in the module's single declared byte order (schema has no per-field override); a token that equals the byte-reversed rendering (and is not a palindrome) is a violation; decode side: lib.Decode of the module-endian image must give back the value, a field that comes back byte-swapped is a violation.")
	r.Assume("token positions come from the pinned schema and the generated value; layout differences other than byte order are C02's business and are not flagged here")
	// ---- (a) primitives
	if e.Only == "" || e.Only == "primitives" {
		c := &primCtx{e: e, rng: gen.NewRng(e.Seed, "C03", "prim"), n: e.N(600, 40000), pairs: map[string]int{}}
		c.g = &gen.Gen{S: e.S, C: e.C, R: c.rng, O: &gen.Opts{}}
		c.guard("primAllPrefixesBasic[int8]", func() { primAllPrefixesBasic[int8](c) })
		c.guard("primAllPrefixesBasic[int16]", func() { primAllPrefixesBasic[int16](c) })
		c.guard("primAllPrefixesBasic[int32]", func() { primAllPrefixesBasic[int32](c) })
		c.guard("primAllPrefixesBasic[int64]", func() { primAllPrefixesBasic[int64](c) })
		c.guard("primAllPrefixesBasic[uint8]", func() { primAllPrefixesBasic[uint8](c) })
		c.guard("primAllPrefixesBasic[uint16]", func() { primAllPrefixesBasic[uint16](c) })
		c.guard("primAllPrefixesBasic[uint32]", func() { primAllPrefixesBasic[uint32](c) })
		c.guard("primAllPrefixesBasic[uint64]", func() { primAllPrefixesBasic[uint64](c) })
		c.guard("primAllPrefixesBasic[float32]", func() { primAllPrefixesBasic[float32](c) })
		c.guard("primAllPrefixesBasic[float64]", func() { primAllPrefixesBasic[float64](c) })
		c.guard("primAllPrefixesBasic[namedI64]", func() { primAllPrefixesBasic[namedI64](c) }) // defined element types
		c.guard("primAllPrefixesBasic[namedU16]", func() { primAllPrefixesBasic[namedU16](c) })
		c.guard("primAllPrefixesBasic[namedF32]", func() { primAllPrefixesBasic[namedF32](c) })
		c.guard("primBasicList[namedPfx16, int32]", func() { primBasicList[namedPfx16, int32](c) }) // defined prefix types
		c.guard("primBasicList[namedPfx8, uint16]", func() { primBasicList[namedPfx8, uint16](c) })
		c.guard("primPerPrefix[namedPfx16]", func() { primPerPrefix[namedPfx16](c) })
		c.guard("primPerPrefix[uint8]", func() { primPerPrefix[uint8](c) })
		c.guard("primPerPrefix[uint16]", func() { primPerPrefix[uint16](c) })
		c.guard("primPerPrefix[uint32]", func() { primPerPrefix[uint32](c) })
		c.guard("primPerPrefix[uint64]", func() { primPerPrefix[uint64](c) })
		r.Evals(c.evals)
		r.DistinctAdd(c.nonPal)
		r.Set("primitive_pairs_instantiated", len(c.pairs))
		r.Set("primitive_pair_observations", c.evals)
		r.Sample(map[string]any{"monitor": "primitive pairs", "pairs": sortedKeys(c.pairs)[:6], "observations_per_pair": c.n})
		if len(c.pairs) < 107 {
			r.Inconclusive(fmt.Sprintf("only %d primitive pairs were exercised", len(c.pairs)))
		}
	}
	if e.Only == "primitives" {
		return
	}
	// ---- (b) messages
	types := e.Types()
	n := e.N(300, 40000)
	cat := newFeatAcc()
	e.Par(len(types), func(i int) {
		t := types[i]
		lf := map[string]int{}
		local := map[uint64]struct{}{}
		cs := e.caseOpts(t, n, 1, false, e.Thorough)
		var evals int64
		for ci, o := range cs {
			g := e.Gen(o, t.QName, ci)
			v := g.Value(t)
			rb, toks, rerr := e.C.EncodeTok(t, val.Clone(v))
			if rerr != nil {
				continue
			}
			lb, lerr, p := EncodeFresh(val.Clone(v))
			evals++
			if p != nil || lerr != nil {
				lf["skipped:encode-failed(C01/C17)"]++
				continue
			}
			if len(lb) != len(rb) {
				lf["skipped:layout-length-differs(C02)"]++
				continue
			}
			nonPal := false
			for _, tk := range toks {
				if !tk.Num || tk.W < 2 {
					continue
				}
				lf[t.Mod.Name+"/"+tk.Cat]++
				lf["all/"+tk.Cat]++
				right := refInt(tk.W, tk.Val, t.LE)
				wrong := refInt(tk.W, tk.Val, !t.LE)
				got := lb[tk.Off : tk.Off+tk.W]
				if bytes.Equal(right, wrong) {
					continue
				}
				nonPal = true
				if bytes.Equal(got, wrong) {
					order := "big"
					if t.LE {
						order = "little"
					}
					r.Violate("C03/msg-token-byte-order/"+t.QName+"/"+tk.Cat, "C03/msg-token-byte-order/"+t.QName, map[string]any{
						"type": t.QName, "case": ci, "module_byte_order": order, "token": tk.Path + " (" + tk.Cat + ")", "offset": tk.Off,
						"lib_bytes": val.Hex(got, 16), "expected_bytes": val.Hex(right, 16), "value": val.Summary(v, 400)})
				}
			}
			// frames: a header word that carries the body byte count (or a trailer that carries the
			// frame checksum) in the OPPOSITE byte order is a byte-order violation even when the pinned
			// schema does not say the frame computes it (BSE passes the caller's value through)
			if bl, trailerW, hdr, ok := frameGeometry(t, toks, len(lb)); ok && bl > 0 {
				for _, tk := range toks {
					if !tk.Num || tk.W != 4 || tk.Off >= hdr {
						continue
					}
					right, wrong := refInt(4, uint64(bl), t.LE), refInt(4, uint64(bl), !t.LE)
					got := lb[tk.Off : tk.Off+4]
					if !bytes.Equal(right, wrong) && bytes.Equal(got, wrong) && !bytes.Equal(got, refInt(4, tk.Val, t.LE)) {
						r.Violate("C03/msg-length-word-byte-order/"+t.QName, "C03/msg-length-word-byte-order/"+t.QName, map[string]any{
							"type": t.QName, "case": ci, "token": tk.Path, "lib_bytes": val.Hex(got, 8), "body_bytes": bl, "observation": "the header word equals the body byte count rendered in the opposite byte order"})
					}
				}
				_ = trailerW
			}
			if nonPal && !val.IsZero(v) {
				local[val.Hash(v)] = struct{}{}
			}
			// decode side: the module-endian image must come back as v
			d := e.C.New[t.QName]()
			derr, dp := LibDecode(d, bytes.NewBuffer(append([]byte(nil), rb...)))
			evals++
			if dp == nil && derr == nil {
				want := withCorrectComputed(t, v, rb)
				if val.Equal(want, d) != "" {
					// is some numeric field byte-swapped?
					if rb2, toks2, err2 := e.C.EncodeTok(t, d); err2 == nil && len(rb2) == len(rb) && len(toks2) == len(toks) {
						for k, tk := range toks {
							if tk.Num && tk.W > 1 && toks2[k].Val != tk.Val && bytes.Equal(refInt(tk.W, toks2[k].Val, t.LE), refInt(tk.W, tk.Val, !t.LE)) {
								r.Violate("C03/msg-decode-byte-order/"+t.QName+"/"+tk.Cat, "C03/msg-decode-byte-order/"+t.QName, map[string]any{
									"type": t.QName, "case": ci, "token": tk.Path + " (" + tk.Cat + ")", "image": val.Hex(rb, 200), "decoded_value": fmt.Sprintf("%#x", toks2[k].Val), "expected_value": fmt.Sprintf("%#x", tk.Val)})
								break
							}
						}
					}
				}
			}
			if ci == 0 && i%45 == 0 {
				r.Sample(map[string]any{"monitor": "message tokens", "type": t.QName, "bytes": val.Hex(lb, 64), "numeric_tokens": tokSummary(toks, 8)})
			}
		}
		r.Evals(evals)
		r.DistinctMany(local)
		cat.merge(lf)
	})
	r.Set("numeric_tokens_by_module_and_category", cat.m)
	if e.Only == "" {
		for _, c := range []string{"scalar", "count", "elem", "strlen", "bodylen", "checksum"} {
			if cat.m["all/"+c] == 0 {
				r.Inconclusive("no multi-byte token of category " + c + " was observed")
			}
		}
		for _, m := range []string{"sse", "szse", "bjse", "risk", "sample", "handwritten"} {
			if cat.m[m+"/scalar"] == 0 {
				r.Inconclusive("no scalar token observed for module " + m)
			}
		}
	}
}

// frameGeometry returns (body bytes, trailer width, header bytes) for a type that has a discriminated
// body preceded by fixed header words: body = image - header - trailing scalar tokens after the body.
func frameGeometry(t *schema.Type, toks []ref.Token, imgLen int) (int, int, int, bool) {
	ui := -1
	for i, f := range t.Fields {
		if f.Kind == "union" && f.Key == "MsgType" {
			ui = i
		}
	}
	if ui < 0 {
		return 0, 0, 0, false
	}
	hdr := 0
	for _, f := range t.Fields[:ui] {
		switch f.Kind {
		case "bodylen":
			hdr += schema.Width(f.Prefix)
		default:
			hdr += schema.Width(f.Kind)
		}
	}
	tr := 0
	for _, f := range t.Fields[ui+1:] {
		switch f.Kind {
		case "checksum":
			tr += schema.Width(f.Prefix)
		default:
			tr += schema.Width(f.Kind)
		}
	}
	return imgLen - hdr - tr, tr, hdr, true
}
