package checks

import (
	"bytes"
	"errors"
	"fmt"

	"verif/internal/gen"
	"verif/internal/ref"
	"verif/internal/val"
)

// c16Pool is the "pooled objects" monitor: a few long-lived message objects and buffers of one type
// are used over and over (encode object i into buffer j, decode an image into object i, reset a
// buffer), the way an application that pools messages and buffers would.  Two oracles:
//   - isolation: an operation on object i / buffer j never changes any OTHER pooled object or the
//     unread bytes of any other buffer (each has a deep snapshot taken when it was last touched);
//   - statelessness: what an operation produces equals what the stateless reference interpreter
//     produces for the same input, however the objects and the process were used before.
//
// It exists for defects that need a particular ORDER of operations on the same objects (a shared
// "empty" sub-object that a later in-place decode fills, a scratch object handed out twice, …).
func c16Pool(e *Env) {
	r := e.R
	types := e.Types()
	steps := e.N(60, 8000)
	acc := newFeatAcc()
	e.Par(len(types), func(i int) {
		t := types[i]
		lf := map[string]int{}
		var evals int64
		rng := gen.NewRng(e.Seed, "C16-pool", t.QName)
		g := &gen.Gen{S: e.S, C: e.C, R: rng, O: &gen.Opts{Arbitrary: true, NoNilBody: true}}
		const K, B = 4, 2
		objs := make([]any, K)
		snaps := make([]any, K)
		for k := range objs {
			switch k {
			case 0:
				objs[k] = e.C.New[t.QName]() // the zero value: every nested part absent
			case 1:
				objs[k] = e.NewVia(t.QName, 1) // what the generated constructor hands out
			default:
				objs[k] = g.Value(t)
			}
			snaps[k] = val.Clone(objs[k])
		}
		bufs := make([]*bytes.Buffer, B)
		bsnap := make([][]byte, B)
		for j := range bufs {
			bufs[j] = new(bytes.Buffer)
		}
		checkOthers := func(op string, ti, tj int, trace []string) bool {
			for k := range objs {
				if k == ti {
					continue
				}
				if d := val.Equal(snaps[k], objs[k]); d != "" {
					r.Violate("C16/operation-on-one-object-changed-another/"+t.QName, "C16/operation-on-one-object-changed-another/"+t.QName, map[string]any{"type": t.QName, "operation": op, "changed_object": k, "first_difference": d, "trace": tailTrace(trace)})
					return false
				}
			}
			for j := range bufs {
				if j == tj {
					continue
				}
				if !bytes.Equal(bufs[j].Bytes(), bsnap[j]) {
					r.Violate("C16/operation-changed-another-buffer/"+t.QName, "C16/operation-changed-another-buffer/"+t.QName, map[string]any{"type": t.QName, "operation": op, "changed_buffer": j, "trace": tailTrace(trace)})
					return false
				}
			}
			return true
		}
		var trace []string
		for s := 0; s < steps; s++ {
			oi, bj := rng.Intn(K), rng.Intn(B)
			switch rng.Intn(5) {
			case 0, 1: // encode object oi into buffer bj
				op := fmt.Sprintf("step %d: Encode(obj%d -> buf%d)", s, oi, bj)
				trace = append(trace, op)
				want, rerr := e.C.Encode(t, val.Clone(objs[oi]))
				pre := append([]byte(nil), bufs[bj].Bytes()...)
				err, p := LibEncode(objs[oi], bufs[bj])
				evals++
				if p != nil {
					lf["encode-panicked(C17)"]++
				} else if err == nil && rerr == nil {
					a := bufs[bj].Bytes()
					if len(a) < len(pre) || !bytes.Equal(a[:len(pre)], pre) || !bytes.Equal(a[len(pre):], want) {
						d := firstDiffPlain(a[min(len(pre), len(a)):], want)
						d["type"], d["operation"], d["trace"], d["object"] = t.QName, op, tailTrace(trace), val.Summary(snaps[oi], 300)
						r.Violate("C16/pooled-encode-differs-from-stateless-reference/"+t.QName, "C16/pooled-encode-differs-from-stateless-reference/"+t.QName, d)
						return
					}
					lf["pooled-encodes-equal-reference"]++
				} else if (err == nil) != (rerr == nil) && !errors.Is(rerr, ref.ErrTooLong) && !errors.Is(rerr, ref.ErrDomain) {
					lf["encode-accept/reject-differs(C02)"]++
				}
				snaps[oi] = val.Clone(objs[oi])
				bsnap[bj] = append(bsnap[bj][:0], bufs[bj].Bytes()...)
				if !checkOthers(op, oi, bj, trace) {
					return
				}
			case 2, 3: // decode an image from buffer bj into object oi
				var img []byte
				if rng.Bool() {
					img = g.Wire(t)
				} else if w, err := e.C.Encode(t, (&gen.Gen{S: e.S, C: e.C, R: rng, O: &gen.Opts{}}).Value(t)); err == nil {
					img = w
				}
				op := fmt.Sprintf("step %d: Decode(buf%d -> obj%d) image=%s", s, bj, oi, val.Hex(img, 24))
				trace = append(trace, op)
				bufs[bj].Reset()
				bufs[bj].Write(img)
				wantMsg, _, _, rerr := e.C.Decode(t, img, false)
				err, p := LibDecode(objs[oi], bufs[bj])
				evals++
				if p != nil {
					lf["decode-panicked(C09)"]++
				} else if err == nil && rerr == nil {
					if d := val.Equal(wantMsg, objs[oi]); d != "" {
						r.Violate("C16/pooled-decode-differs-from-stateless-reference/"+t.QName, "C16/pooled-decode-differs-from-stateless-reference/"+t.QName, map[string]any{"type": t.QName, "operation": op, "first_difference": d, "trace": tailTrace(trace)})
						return
					}
					lf["pooled-decodes-equal-reference"]++
				}
				snaps[oi] = val.Clone(objs[oi])
				bsnap[bj] = append(bsnap[bj][:0], bufs[bj].Bytes()...)
				if !checkOthers(op, oi, bj, trace) {
					return
				}
			case 4: // recycle: a buffer is reset, or an object is replaced by a fresh zero value
				if rng.Bool() {
					trace = append(trace, fmt.Sprintf("step %d: buf%d.Reset()", s, bj))
					bufs[bj].Reset()
					bsnap[bj] = bsnap[bj][:0]
				} else {
					trace = append(trace, fmt.Sprintf("step %d: obj%d = new zero value / constructor result", s, oi))
					objs[oi] = e.NewVia(t.QName, s)
					snaps[oi] = val.Clone(objs[oi])
				}
			}
		}
		r.Evals(evals)
		r.Distinct(val.Hash(t.QName + "/pool"))
		acc.merge(lf)
		if i%60 == 0 {
			r.Sample(map[string]any{"monitor": "pooled objects", "type": t.QName, "objects": K, "buffers": B, "steps": steps, "last_operations": tailTrace(trace)})
		}
	})
	r.Set("pooled_object_walks", acc.m)
}

func tailTrace(t []string) []string {
	if len(t) > 8 {
		return t[len(t)-8:]
	}
	return t
}
