package checks

import (
	"bytes"
	"encoding/hex"
	"fmt"
	"os"
	"reflect"
	"runtime"
	"sort"
	"strings"
	"time"

	"github.com/xinchentechnote/fin-proto-go/codec"

	"verif/internal/bind"
	"verif/internal/gen"
	"verif/internal/schema"
	"verif/internal/val"
)

func init() {
	Registry["C09"] = hostile
	Registry["C10"] = hostile
}

const (
	allocConst   = 32 * 1024 // C10: alloc <= allocConst + allocPerByte*len(input)
	allocPerByte = 40
	stepConst    = 256 // C09 step proxy: mallocs <= stepConst + stepPerByte*len(input)
	stepPerByte  = 8
)

type hcase struct {
	kind   string
	site   string
	in     []byte
	bigCap bool // hand the input over in a buffer whose capacity (4 MiB) far exceeds its content
}

// staticSites lists every length/count reader site of the pinned schema: "<pkg.Type>.<Field>:<cat>".
func staticSites(s *schema.Schema) map[string]bool {
	r := map[string]bool{}
	for _, t := range s.Order {
		for _, f := range t.Fields {
			switch f.Kind {
			case "pstr":
				r[t.QName+"."+f.Name+":strlen"] = true
			case "list":
				r[t.QName+"."+f.Name+":count"] = true
				if f.Elem.Kind == "pstr" {
					r[t.QName+"."+f.Name+":strlen"] = true
				}
			case "objlist":
				r[t.QName+"."+f.Name+":count"] = true
			case "bodylen":
				r[t.QName+"."+f.Name+":bodylen"] = true
			default:
				if schema.Width(f.Kind) >= 2 && (strings.HasSuffix(f.Name, "Length") || strings.HasSuffix(f.Name, "Len")) {
					r[t.QName+"."+f.Name+":scalar"] = true
				}
			}
		}
	}
	return r
}

func hostileValues(w int) []uint64 {
	max := uint64(1)<<(8*uint(w)) - 1
	if w == 8 {
		max = ^uint64(0)
	}
	cands := []uint64{max, max - 1, 1 << 31, 1<<31 - 1, 1 << 16, 0x0100, 1<<15 - 1, 1<<63 - 1, 1 << 63}
	seen := map[uint64]bool{}
	var out []uint64
	for _, c := range cands {
		c &= max
		if c <= 3 || seen[c] {
			continue
		}
		seen[c] = true
		out = append(out, c)
	}
	return out
}

// hostileCases builds the deterministic hostile input list of one decoder.
// minWire is a lower bound, from the pinned schema, on the length of ANY image the decoder of t can accept:
// fixed-width fields count in full, variable-length ones with their prefix only, bodies and extensions with 0.
func minWire(e *Env, t *schema.Type, depth int) int {
	n := 0
	for i := range t.Fields {
		f := &t.Fields[i]
		switch f.Kind {
		case "fixstr":
			n += f.N
		case "pstr", "list", "objlist", "bodylen", "checksum":
			n += schema.Width(f.Prefix)
		case "struct":
			if st := e.S.Lookup(t.Pkg, f.Type); st != nil && depth < 6 {
				n += minWire(e, st, depth+1)
			}
		case "union":
		default:
			n += schema.Width(f.Kind)
		}
	}
	return n
}

func hostileCases(e *Env, t *schema.Type) []hcase {
	var cs []hcase
	// (00) fewer bytes than any message of this type can have, starting with none at all: must be rejected
	if mw := minWire(e, t, 0); mw > 0 {
		rs := gen.NewRng(e.Seed, "hostile-short", t.QName)
		for _, l := range []int{0, 1, 2, 3, mw / 2, mw - 1} {
			if l >= 0 && l < mw {
				cs = append(cs, hcase{kind: "shorter-than-any-message", in: rs.Bytes(l)}, hcase{kind: "shorter-than-any-message", in: make([]byte, l)})
			}
		}
	}
	nRand := e.N(400, 60000)
	nMut := e.N(400, 60000)
	nPre := e.N(150, 20000)
	nKey := e.N(100, 12000)
	rng := gen.NewRng(e.Seed, "hostile", t.QName)
	_ = gen.DefaultLens
	// (0) a legitimate LARGE message comes first (60 000-element lists actually present), built from the same
	// value as the first base image below: a decoder that remembers sizes across messages (per-session slabs,
	// capacity hints keyed on a header field) then meets short hostile inputs that share its header
	if hasList(e, t, map[string]bool{}) {
		o := e.caseOpts(t, 1, 0, false, false)[0]
		o.Lens, o.StrLens = []int{2, 3}, []int{3, 9}
		v := (&gen.Gen{S: e.S, C: e.C, R: gen.NewRng(e.Seed, "hostile-base", t.QName, 0), O: o}).Value(t)
		growLists(reflect.ValueOf(v), 60000)
		if img, err := e.C.Encode(t, v); err == nil {
			cs = append(cs, hcase{kind: "legitimate-large-sharing-the-header-of-later-inputs", in: img})
		}
	}
	// (a) uniformly random bytes
	lens := []int{0, 1, 2, 3, 4, 5, 7, 8, 12, 16, 24, 33, 64, 100, 256, 1000, 4096}
	for i := 0; i < nRand; i++ {
		cs = append(cs, hcase{kind: "random", in: rng.Bytes(lens[rng.Intn(len(lens))]), bigCap: i%4 == 3})
	}
	// valid base images (one plain, one per registered key of the type's own tables)
	var bases [][]byte
	for ci, o := range e.caseOpts(t, 3, 1, false, false) {
		o.Lens = []int{2, 3}
		o.StrLens = []int{3, 9}
		gg := &gen.Gen{S: e.S, C: e.C, R: gen.NewRng(e.Seed, "hostile-base", t.QName, ci), O: o}
		v := gg.Value(t)
		img, toks, err := e.C.EncodeTok(t, v)
		if err != nil {
			continue
		}
		bases = append(bases, img)
		// (d) site-directed: every count / text-length token
		for _, tk := range toks {
			lengthWord := tk.Cat == "bodylen" || (tk.Cat == "scalar" && tk.W >= 2 && (strings.HasSuffix(tk.Site, "Length") || strings.HasSuffix(tk.Site, "Len")))
			if tk.Cat != "count" && tk.Cat != "strlen" && !lengthWord {
				continue
			}
			site := tk.Site + ":" + tk.Cat
			hvs := hostileValues(tk.W)
			if !lengthWord {
				// counts whose product with the element size wraps around the prefix width (a count*size
				// availability test done in the prefix type passes for them), and plain powers of two
				mod := uint64(1) << (8 * uint(tk.W))
				if tk.W == 8 {
					mod = 0
				}
				for _, es := range []uint64{2, 3, 4, 8, 10, 12, 16, 20, 24} {
					for k := uint64(1); k <= 3 && mod != 0; k++ {
						hvs = append(hvs, (k*mod+es-1)/es)
					}
				}
				for sh := uint(9); sh < 8*uint(tk.W) && sh < 40; sh += 2 {
					hvs = append(hvs, 1<<sh, 7<<(sh-2))
				}
			}
			if lengthWord {
				// a decoder that starts honouring the frame length must survive every absurd value,
				// including the handful right below the wrap-around of "length + trailer"
				max := uint64(1)<<(8*uint(tk.W)) - 1
				for d := uint64(2); d <= 8; d++ {
					hvs = append(hvs, max-d)
				}
				hvs = append(hvs, 1<<31-4, 1<<31+4, uint64(len(img)), uint64(len(img))+1, 1<<24)
			}
			for _, hv := range hvs {
				for _, le := range []bool{t.LE, !t.LE} {
					tokb := refInt(tk.W, hv, le)
					head := append(append([]byte(nil), img[:tk.Off]...), tokb...)
					cs = append(cs, hcase{"site-directed/cut", site, head, false})
					cs = append(cs, hcase{"site-directed/+1", site, append(append([]byte(nil), head...), rng.Bytes(1)...), false})
					cs = append(cs, hcase{"site-directed/+16", site, append(append([]byte(nil), head...), rng.Bytes(16)...), true})
					cs = append(cs, hcase{"site-directed/valid-remainder", site, append(append([]byte(nil), head...), img[tk.Off+tk.W:]...), le == t.LE})
					if le == t.LE && !lengthWord && (hv == hvs[0] || hv == 1<<16 || hv == 1<<15-1) {
						// a large count in front of thousands of bytes that are really there (other frames queued behind):
						// reserving per claimed element, bounded only by BYTES left, multiplies the input
						cs = append(cs, hcase{"site-directed/+4KiB", site, append(append([]byte(nil), head...), rng.Bytes(4096)...), false})
						cs = append(cs, hcase{"site-directed/+60KiB", site, append(append([]byte(nil), head...), rng.Bytes(60000)...), false})
					}
				}
			}
		}
	}
	if len(bases) == 0 {
		bases = append(bases, nil)
	}
	// (b) strict prefixes of valid images
	for i := 0; i < nPre; i++ {
		b := bases[rng.Intn(len(bases))]
		if len(b) == 0 {
			continue
		}
		cs = append(cs, hcase{kind: "prefix", in: append([]byte(nil), b[:rng.Intn(len(b))]...)})
	}
	// (c) valid images with 1..8 bit flips / byte substitutions (+ optional tail)
	for i := 0; i < nMut; i++ {
		b := append([]byte(nil), bases[rng.Intn(len(bases))]...)
		if len(b) == 0 {
			continue
		}
		for k := 0; k <= rng.Intn(8); k++ {
			p := rng.Intn(len(b))
			if rng.Bool() {
				b[p] ^= 1 << uint(rng.Intn(8))
			} else {
				b[p] = byte(rng.U64())
			}
		}
		if rng.Chance(1, 3) {
			b = append(b, rng.Bytes(rng.Intn(40))...)
		}
		cs = append(cs, hcase{kind: "mutated", in: b})
	}
	// (e) unknown discriminators, including near-misses of registered keys
	for _, f := range t.Fields {
		if f.Kind != "union" {
			continue
		}
		tb := e.S.Table(t.Pkg, f.Table)
		// locate the key token in a base image
		var kf *schema.Field
		off := 0
		for i := range t.Fields {
			if t.Fields[i].Name == f.Key {
				kf = &t.Fields[i]
				break
			}
			switch t.Fields[i].Kind {
			case "fixstr":
				off += t.Fields[i].N
			default:
				off += schema.Width(t.Fields[i].Kind)
			}
		}
		if kf == nil {
			continue
		}
		for i := 0; i < nKey; i++ {
			b := append([]byte(nil), bases[rng.Intn(len(bases))]...)
			if kf.Kind == "fixstr" {
				if len(b) < off+kf.N {
					continue
				}
				key := tb.Entries[rng.Intn(len(tb.Entries))].Key.(string)
				kb := []byte(key)
				switch rng.Intn(6) {
				case 4: // sign / radix characters in front of digits ("-12", "+07", "0x1")
					kb = []byte{"-+ 0"[rng.Intn(4)], byte('0' + rng.Intn(10)), byte('0' + rng.Intn(10))}
				case 5:
					kb = []byte{byte('0' + rng.Intn(10)), "xX.eE-"[rng.Intn(6)], byte('0' + rng.Intn(10))}
				case 0:
					kb[rng.Intn(len(kb))] = byte('0' + rng.Intn(10))
				case 1:
					kb[rng.Intn(len(kb))] = byte(rng.U64())
				case 2:
					kb = []byte(strings.Repeat(" ", kf.N))
				case 3:
					kb = rng.Bytes(kf.N)
				}
				copy(b[off:], []byte(fmt.Sprintf("%-*s", kf.N, string(kb)))[:kf.N])
			} else {
				w := schema.Width(kf.Kind)
				if len(b) < off+w {
					continue
				}
				key := tb.Entries[rng.Intn(len(tb.Entries))].Key.(uint64)
				switch rng.Intn(5) {
				case 0:
					key ^= 1 << uint(rng.Intn(8*w))
				case 1:
					key++
				case 2:
					key = rng.U64()
				case 3:
					key = 0
				case 4: // byte-swapped registered key
					key = getIntRev(refInt(w, key, false))
				}
				copy(b[off:], refInt(w, key, t.LE))
			}
			cs = append(cs, hcase{kind: "discriminator", in: b})
		}
	}
	// legitimate large inputs: must stay inside the bounds (guards the oracle against being too tight)
	if hasList(e, t, map[string]bool{}) {
		big := []int{1000}
		if e.Thorough || t.QName == "sample.BasicPacket" || t.QName == "sse.ExecRptInfo" || t.QName == "sample.StringPacket" || t.QName == "szse.PlatformInfo" {
			big = append(big, 65535)
		}
		for _, l := range big {
			for _, o := range []*gen.Opts{{Lens: []int{l}, StrLens: []int{1}}, {Lens: []int{2}, StrLens: []int{l}}} {
				gg := &gen.Gen{S: e.S, C: e.C, R: gen.NewRng(e.Seed, "hostile-big", t.QName, l), O: o}
				img, err := e.C.Encode(t, gg.Value(t))
				if err == nil {
					cs = append(cs, hcase{kind: "legitimate-large", in: img})
				}
			}
		}
	}
	return cs
}

// growLists makes every top-level list of a message n elements long by repeating its elements (nested lists stay as they are).
func growLists(v reflect.Value, n int) {
	switch v.Kind() {
	case reflect.Pointer, reflect.Interface:
		if !v.IsNil() {
			growLists(v.Elem(), n)
		}
	case reflect.Struct:
		for i := 0; i < v.NumField(); i++ {
			f := v.Field(i)
			if f.Kind() == reflect.Slice && f.Len() > 0 && f.CanSet() {
				out := reflect.MakeSlice(f.Type(), n, n)
				for k := 0; k < n; k++ {
					out.Index(k).Set(f.Index(k % f.Len()))
				}
				f.Set(out)
			} else if f.Kind() == reflect.Pointer || f.Kind() == reflect.Interface {
				growLists(f, n)
			}
		}
	}
}

func getIntRev(b []byte) uint64 {
	var x uint64
	for i := len(b) - 1; i >= 0; i-- {
		x = x<<8 | uint64(b[i])
	}
	return x
}

func hostileChild(e *Env, ca childArgs) {
	r := e.R
	if os.Getenv("VERIF_NO_RLIMIT") == "" {
		if err := limitAddressSpace(2 << 30); err != nil {
			fmt.Println("setrlimit:", err)
		}
	}
	runtime.GOMAXPROCS(1)
	log := openChildLog()
	n := -1
	sites := map[string]bool{}
	var worstAllocRatio, worstStepRatio float64
	var worstAllocCase, worstStepCase string
	var m0, m1 runtime.MemStats
	kinds := map[string]int64{}
	bigBack := make([]byte, 4<<20)
	var distinct int64
	seen := map[uint64]struct{}{}
	for ti, t := range e.Types() {
		if ti%ca.nshards != ca.shard {
			continue // decoders are dealt round-robin to the shards; n counts this shard's cases only
		}
		cases := hostileCases(e, t)
		for ci := range cases {
			n++
			if ca.one >= 0 {
				if n != ca.one {
					continue
				}
			} else if n < ca.skip {
				continue
			}
			c := &cases[ci]
			id := fmt.Sprintf("%s#%d %s in=%s", t.QName, ci, c.kind, clipHex(c.in, 600))
			d := e.C.New[t.QName]()
			in := append([]byte(nil), c.in...)
			buf := bytes.NewBuffer(in)
			if c.bigCap && len(c.in) < len(bigBack)/2 {
				// a receive buffer that is much larger than what it currently holds (capacity is not content)
				copy(bigBack, c.in)
				buf = bytes.NewBuffer(bigBack[:len(c.in):len(bigBack)])
				kinds["buffer-with-4MiB-spare-capacity"]++
			}
			log.begin(n, id)
			runtime.ReadMemStats(&m0)
			err, p := LibDecode(d, buf)
			runtime.ReadMemStats(&m1)
			log.end(n)
			alloc := m1.TotalAlloc - m0.TotalAlloc
			mallocs := m1.Mallocs - m0.Mallocs
			kinds[c.kind]++
			if c.site != "" {
				sites[c.site] = true
			}
			h := val.Hash(string(c.in))
			if _, ok := seen[h]; !ok && len(c.in) > 0 {
				seen[h] = struct{}{}
				distinct++
			}
			det := func(extra map[string]any) map[string]any {
				m := map[string]any{"type": t.QName, "case": ci, "kind": c.kind, "site": c.site, "input_len": len(c.in), "input": clipHex(c.in, 600), "alloc_bytes": alloc, "mallocs": mallocs}
				for k, x := range extra {
					m[k] = x
				}
				return m
			}
			if r.Prop == "C09" {
				if p != nil {
					r.Violate("C09/panic/"+t.QName, "C09/panic/"+t.QName, det(map[string]any{"panic": p.Value, "stack": p.Stack}))
					continue
				}
				if mw := minWire(e, t, 0); err == nil && len(c.in) < mw {
					r.Violate("C09/success-on-fewer-bytes-than-any-message/"+t.QName, "C09/success-on-fewer-bytes-than-any-message/"+t.QName, det(map[string]any{"shortest_possible_message": mw, "observed": "Decode returned nil: neither a decoded message (there are not enough bytes for one) nor an error", "receiver_after": val.Summary(d, 200)}))
					continue
				}
				if lim := uint64(stepConst + stepPerByte*len(c.in)); mallocs > lim {
					r.Violate("C09/steps-not-proportional/"+t.QName, "C09/steps-not-proportional/"+t.QName, det(map[string]any{"bound_mallocs": lim, "decode_error": errStr(err)}))
					continue
				}
				if ratio := float64(mallocs) / float64(stepConst+stepPerByte*len(c.in)); ratio > worstStepRatio {
					worstStepRatio, worstStepCase = ratio, fmt.Sprintf("%s %s len=%d mallocs=%d", t.QName, c.kind, len(c.in), mallocs)
				}
			} else {
				if p != nil {
					kinds["panics(C09's business)"]++
					continue
				}
				if lim := uint64(allocConst + allocPerByte*len(c.in)); alloc > lim {
					r.Violate("C10/allocation-not-proportional/"+t.QName+"/"+c.site, "C10/allocation-not-proportional/"+t.QName, det(map[string]any{"bound_bytes": lim, "decode_error": errStr(err)}))
					continue
				}
				if ratio := float64(alloc) / float64(allocConst+allocPerByte*len(c.in)); ratio > worstAllocRatio {
					worstAllocRatio, worstAllocCase = ratio, fmt.Sprintf("%s %s len=%d alloc=%d", t.QName, c.kind, len(c.in), alloc)
				}
			}
			if err == nil {
				kinds["accepted"]++
			} else {
				kinds["rejected"]++
			}
			r.Evals(1)
		}
	}
	if ca.shard == 0 && ca.one < 0 {
		hostilePrimitives(e)
	}
	// ---- registration scenario (C09 only): an unknown discriminator, then a run-time re-registration of an
	// existing key through the public Registry…Factory function, then a perfectly valid message.  A decoder
	// that leaked a lock on the error path blocks here forever.
	if r.Prop == "C09" && ca.one < 0 {
		for ti, t := range e.Types() {
			if ti%ca.nshards != ca.shard {
				continue
			}
			for fi := range t.Fields {
				f := &t.Fields[fi]
				if f.Kind != "union" {
					continue
				}
				tb := e.S.Table(t.Pkg, f.Table)
				reg := bind.Registrars[tb.QName]
				if reg == nil {
					continue
				}
				g := &gen.Gen{S: e.S, C: e.C, R: gen.NewRng(e.Seed, "C09-registration", t.QName), O: &gen.Opts{}}
				valid := g.Value(t)
				img, err := e.C.Encode(t, valid)
				bad := g.Value(t)
				setKeyField(bad, f.Key, g.UnregKeyFor(tb))
				badImg, err2 := e.C.Encode(t, bad)
				if err != nil || err2 != nil {
					continue
				}
				en := tb.Entries[0]
				pinned := e.S.Lookup(t.Pkg, en.Type).QName
				done := make(chan string, 1)
				go func() {
					_, p1 := LibDecode(e.C.New[t.QName](), bytes.NewBuffer(append([]byte(nil), badImg...)))
					reg(en.Key, func() codec.BinaryCodec { return e.C.New[pinned]().(codec.BinaryCodec) })
					derr, p2 := LibDecode(e.C.New[t.QName](), bytes.NewBuffer(append([]byte(nil), img...)))
					switch {
					case p1 != nil || p2 != nil:
						done <- fmt.Sprintf("panic: %v %v", p1, p2)
					case derr != nil:
						done <- "valid message rejected after re-registration: " + derr.Error()
					default:
						done <- ""
					}
				}()
				kinds["registration-scenario"]++
				r.Evals(1)
				select {
				case msg := <-done:
					if msg != "" {
						r.Violate("C09/registration-scenario/"+t.QName, "C09/registration-scenario/"+t.QName, map[string]any{"type": t.QName, "table": tb.QName, "problem": msg})
					}
				case <-time.After(20 * time.Second):
					stacks := make([]byte, 1<<20)
					stacks = stacks[:runtime.Stack(stacks, true)]
					s := string(stacks)
					if strings.Contains(s, "sync.(*RWMutex)") || strings.Contains(s, "sync.(*Mutex)") || strings.Contains(s, "semacquire") {
						// not "slow": the goroutine is parked on a lock inside the library and nobody holds it
						i := strings.Index(s, "fin-proto-go")
						lo := i - 1500
						if lo < 0 {
							lo = 0
						}
						r.Violate("C09/decoder-blocked-forever-on-a-lock/"+t.QName, "C09/decoder-blocked-forever-on-a-lock/"+t.QName, map[string]any{"type": t.QName, "table": tb.QName,
							"sequence":       "Decode(image with unregistered " + f.Key + ") -> error; Registry" + tb.Name + "Factory(existing key, same factory); Decode(valid image) never returns",
							"goroutine_dump": s[lo:min(len(s), lo+3000)]})
					} else {
						r.Inconclusive("registration scenario of " + t.QName + " did not return within 20 s but no goroutine is parked on a lock")
					}
				}
			}
		}
	}
	r.DistinctAdd(distinct)
	for k, v := range kinds {
		r.Count("kind:"+k, v)
	}
	var sl []string
	for s := range sites {
		sl = append(sl, s)
	}
	sort.Strings(sl)
	r.Set("sites_hit", sl)
	r.Set("worst_alloc_ratio", worstAllocRatio)
	r.Set("worst_alloc_case", worstAllocCase)
	r.Set("worst_step_ratio", worstStepRatio)
	r.Set("worst_step_case", worstStepCase)
}

func clipHex(b []byte, max int) string {
	if len(b) <= max {
		return hex.EncodeToString(b)
	}
	return hex.EncodeToString(b[:max]) + fmt.Sprintf("...(%d bytes)", len(b))
}

func hostile(e *Env) {
	ca := parseChildArgs(e.Args)
	if ca.isChild {
		hostileChild(e, ca)
		return
	}
	r := e.R
	r.Rule("every decoder (170 types) × hostile inputs, case i a pure function of (seed, type, i): (00) inputs shorter than the shortest possible message of the type, starting with the empty input - a nil result there is neither a message nor an error; (a) uniformly random bytes of 0..4096 bytes; (b) strict prefixes of valid images; (c) valid images with 1..8 bit flips / byte substitutions; (d) site-directed: for EVERY text-length / list-count token and every frame body-length word of valid images (one base image per registered discriminator key) the token is set to each of {max, max-1, 2^31, 2^31-1, 2^16, 0x0100, ...} in the module's byte order and in the opposite one, (for counts also every value whose product with a plausible element size wraps around the prefix width, and powers of two) followed by nothing, 1 byte, 16 bytes, or the valid remainder, half of them handed over in a receive buffer with 4 MiB of spare capacity; (e) unknown and near-miss discriminators; plus every exported prefixed reader primitive instantiated for u8/u16/u32/u64 prefixes with maximal, top-bit and small prefixes followed by 0..40 bytes; plus legitimate large images (1000- and 65535-element lists actually present) that must stay inside the bound. distinct_nontrivial = distinct non-empty inputs")
	if r.Prop == "C09" {
		r.Explain(fmt.Sprintf("Oracle: Decode returns normally (nil or error): no recovered panic; the child process (RLIMIT_AS 2 GiB, single goroutine) does not die (fatal out-of-memory / stack exhaustion bypass recover and are seen as process death with the pre-logged in-flight input as witness); step proxy: heap objects allocated during the call <= %d + %d*len(input) (every loop iteration of every reader allocates at least once, so this bounds the number of reader steps independently of machine load); a wall-clock watchdog only triggers an isolated re-run and is never a verdict by itself.", stepConst, stepPerByte))
	} else {
		r.Explain(fmt.Sprintf("Oracle: bytes allocated during the call (runtime.MemStats.TotalAlloc delta in a single-goroutine child) <= %d + %d*len(input). The constants sit between the worst legitimate amplification of this code base (about 24 bytes per input byte for lists of 1-byte elements; measured worst ratio is reported on every run) and the smallest reservation-for-absent-data the pinned code could make (65 535 one-byte elements from a 2-byte count = 64 KiB). Child death under RLIMIT_AS 2 GiB is a violation too.", allocConst, allocPerByte))
	}
	r.Assume("the allocation meter reads runtime.MemStats in a child process that runs one goroutine (measured noise of an empty interval: 0 bytes, 0 mallocs)", "inputs not generated are not covered")
	outs := runChildren(e, e.Workers, 120*time.Second)
	hit := map[string]bool{}
	var worstA, worstS float64
	var worstAC, worstSC string
	for _, oc := range outs {
		r.Evals(oc.sum.Evaluations)
		r.DistinctAdd(oc.sum.Distinct)
		r.AddViolations(oc.sum.Violations)
		r.Relay(oc.relayed)
		for k, v := range oc.sum.Counters {
			r.Count(k, v)
		}
		if l, ok := oc.sum.Extra["sites_hit"].([]any); ok {
			for _, s := range l {
				hit[fmt.Sprint(s)] = true
			}
		}
		if x, ok := oc.sum.Extra["worst_alloc_ratio"].(float64); ok && x > worstA {
			worstA, worstAC = x, fmt.Sprint(oc.sum.Extra["worst_alloc_case"])
		}
		if x, ok := oc.sum.Extra["worst_step_ratio"].(float64); ok && x > worstS {
			worstS, worstSC = x, fmt.Sprint(oc.sum.Extra["worst_step_case"])
		}
		for _, d := range oc.deaths {
			switch {
			case d["harness"] == true:
				r.Inconclusive(fmt.Sprintf("child %d died outside a library call: %v", oc.shard, d["output"]))
			case d["inconclusive_watchdog"] == true:
				r.Inconclusive(fmt.Sprintf("watchdog fired on shard %d but the in-flight case returned when run alone: %v", oc.shard, d["case"]))
			case d["no_return"] == true:
				r.Violate(r.Prop+"/no-return", r.Prop+"/no-return", d)
			default:
				id := fmt.Sprint(d["case"])
				typ := strings.SplitN(id, "#", 2)[0]
				d["type"] = typ
				r.Violate(r.Prop+"/process-died/"+typ, r.Prop+"/process-died/"+typ, d)
			}
		}
	}
	static := staticSites(e.S)
	var missed []string
	for s := range static {
		if !hit[s] {
			missed = append(missed, s)
		}
	}
	sort.Strings(missed)
	r.Set("length_and_count_sites_in_schema", len(static))
	nhit := 0
	for s := range static {
		if hit[s] {
			nhit++
		}
	}
	r.Set("length_and_count_sites_hit", nhit)
	if r.Prop == "C10" {
		r.Set("worst_observed_alloc_over_bound", map[string]any{"ratio": worstA, "case": worstAC})
	} else {
		r.Set("worst_observed_steps_over_bound", map[string]any{"ratio": worstS, "case": worstSC})
	}
	if e.Only == "" && len(missed) > 0 {
		r.Set("sites_never_reached", missed)
		r.Inconclusive(fmt.Sprintf("%d length/count sites of the schema were never reached", len(missed)))
	}
	r.Sample(map[string]any{"kind": "site-directed/+1", "example": "valid image up to a count token, token := ffff (or ffffffff), one more byte", "bound": fmt.Sprintf("alloc <= %d + %d*len, mallocs <= %d + %d*len", allocConst, allocPerByte, stepConst, stepPerByte)})
	r.Sample(map[string]any{"children": len(outs), "sites_hit": len(hit), "worst_alloc": worstAC, "worst_steps": worstSC})
}
