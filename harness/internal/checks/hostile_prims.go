package checks

import (
	"bytes"
	"fmt"
	"runtime"

	"github.com/xinchentechnote/fin-proto-go/codec"
	"golang.org/x/exp/constraints"

	"verif/internal/mon"
)

// primReader is one instantiation of an exported list / text reader of codec/binary_codec.go.
type primReader struct {
	name string
	w    int  // width of the count / length prefix in bytes
	le   bool // little-endian variant
	f    func(*bytes.Buffer) error
}

func primReadersFor[T constraints.Unsigned](out *[]primReader) {
	w := sizeOf[T]()
	add := func(name string, le bool, f func(*bytes.Buffer) error) {
		*out = append(*out, primReader{fmt.Sprintf("%s[%s]", name, prefName[T]()), w, le, f})
	}
	add("ReadString", false, func(b *bytes.Buffer) error { _, e := codec.ReadString[T](b); return e })
	add("ReadStringLE", true, func(b *bytes.Buffer) error { _, e := codec.ReadStringLE[T](b); return e })
	add("ReadBasicTypeList[u8]", false, func(b *bytes.Buffer) error { _, e := codec.ReadBasicTypeList[T, uint8](b); return e })
	add("ReadBasicTypeListLE[u8]", true, func(b *bytes.Buffer) error { _, e := codec.ReadBasicTypeListLE[T, uint8](b); return e })
	add("ReadBasicTypeList[i64]", false, func(b *bytes.Buffer) error { _, e := codec.ReadBasicTypeList[T, int64](b); return e })
	add("ReadBasicTypeListLE[i64]", true, func(b *bytes.Buffer) error { _, e := codec.ReadBasicTypeListLE[T, int64](b); return e })
	add("ReadFixedStringList", false, func(b *bytes.Buffer) error { _, e := codec.ReadFixedStringList[T](b, 3); return e })
	add("ReadFixedStringListLE", true, func(b *bytes.Buffer) error { _, e := codec.ReadFixedStringListLE[T](b, 3); return e })
	add("ReadFixedStringListTrimPadding", false, func(b *bytes.Buffer) error {
		_, e := codec.ReadFixedStringListTrimPadding[T](b, 1, '0', true)
		return e
	})
	add("ReadFixedStringListTrimPaddingLE", true, func(b *bytes.Buffer) error {
		_, e := codec.ReadFixedStringListTrimPaddingLE[T](b, 1, '0', true)
		return e
	})
	add("ReadStringList[,u8]", false, func(b *bytes.Buffer) error { _, e := codec.ReadStringList[T, uint8](b); return e })
	add("ReadStringListLE[,u8]", true, func(b *bytes.Buffer) error { _, e := codec.ReadStringListLE[T, uint8](b); return e })
	add("ReadStringList[,same]", false, func(b *bytes.Buffer) error { _, e := codec.ReadStringList[T, T](b); return e })
	add("ReadStringListLE[,same]", true, func(b *bytes.Buffer) error { _, e := codec.ReadStringListLE[T, T](b); return e })
	add("ReadObjectList", false, func(b *bytes.Buffer) error {
		_, e := codec.ReadObjectList[T](b, func() *rawObj { return &rawObj{} })
		return e
	})
	add("ReadObjectListLE", true, func(b *bytes.Buffer) error {
		_, e := codec.ReadObjectListLE[T](b, func() *rawObj { return &rawObj{} })
		return e
	})
}

// hostilePrimitives drives every exported prefixed reader, instantiated for EVERY prefix width the constraints
// admit (u8, u16, u32, u64 - the generated messages use only some of them, but the readers are public API and
// the text of C09/C10 is about what a length or count read from the wire may cause), with maximal, top-bit and
// wrap-around prefixes followed by nothing, one byte, or a few bytes.  Same oracles as for message decoders.
func hostilePrimitives(e *Env) {
	r := e.R
	var rs []primReader
	primReadersFor[uint8](&rs)
	primReadersFor[uint16](&rs)
	primReadersFor[uint32](&rs)
	primReadersFor[uint64](&rs)
	primReadersFor[namedPfx16](&rs)
	var m0, m1 runtime.MemStats
	var n int64
	for _, pr := range rs {
		vals := append(hostileValues(pr.w), 1, 2, 255, 256)
		for _, v := range vals {
			for _, tail := range [][]byte{nil, {0x41}, []byte("0123456789abcdef"), bytes.Repeat([]byte{0xFF}, 40)} {
				for _, swap := range []bool{false, true} {
					in := putUint(v, pr.w, pr.le != swap)
					in = append(in, tail...)
					buf := bytes.NewBuffer(append([]byte(nil), in...))
					runtime.ReadMemStats(&m0)
					err, p := mon.Call(func() error { return pr.f(buf) })
					runtime.ReadMemStats(&m1)
					n++
					alloc, mallocs := m1.TotalAlloc-m0.TotalAlloc, m1.Mallocs-m0.Mallocs
					det := map[string]any{"primitive": pr.name, "input": clipHex(in, 80), "input_len": len(in), "prefix_value": v, "alloc_bytes": alloc, "mallocs": mallocs, "result": errStr(err)}
					if r.Prop == "C09" {
						if p != nil {
							det["panic"], det["stack"] = p.Value, p.Stack
							r.Violate("C09/primitive-panic/"+pr.name, "C09/primitive-panic/"+pr.name, det)
						} else if lim := uint64(stepConst + stepPerByte*len(in)); mallocs > lim {
							det["bound_mallocs"] = lim
							r.Violate("C09/primitive-steps-not-proportional/"+pr.name, "C09/primitive-steps-not-proportional/"+pr.name, det)
						}
					} else if p == nil {
						if lim := uint64(allocConst + allocPerByte*len(in)); alloc > lim {
							det["bound_bytes"] = lim
							r.Violate("C10/primitive-allocation-not-proportional/"+pr.name, "C10/primitive-allocation-not-proportional/"+pr.name, det)
						}
					}
				}
			}
		}
	}
	r.Evals(n)
	r.Count("kind:primitive-readers-with-hostile-prefixes", n)
	r.Set("primitive_readers_instantiated", len(rs))
}

func putUint(v uint64, w int, le bool) []byte {
	b := make([]byte, w)
	for i := 0; i < w; i++ {
		sh := uint(8 * i)
		if !le {
			sh = uint(8 * (w - 1 - i))
		}
		b[i] = byte(v >> sh)
	}
	return b
}
