// Package checks holds one monitor (workload + oracle) per property.
package checks

import (
	"bytes"
	"fmt"
	"io"
	"path/filepath"
	"reflect"
	"runtime"
	"sort"
	"sync"

	"github.com/xinchentechnote/fin-proto-go/codec"

	"verif/internal/bind"
	"verif/internal/gen"
	"verif/internal/mon"
	"verif/internal/ref"
	"verif/internal/schema"
	"verif/internal/val"
)

type Env struct {
	S        *schema.Schema
	C        *ref.Codec
	R        *mon.Run
	Tier     string
	Seed     int64
	Only     string
	Thorough bool
	Workers  int
	Args     []string // extra arguments (child mode etc.)
}

func NewEnv(prop, tier string, seed int64, only string) *Env {
	s := schema.Load()
	e := &Env{S: s, C: ref.New(s, bind.News), Tier: tier, Seed: seed, Only: only, Thorough: tier == "thorough"}
	e.R = mon.NewRun(prop, tier, seed)
	e.R.Only = only
	e.Workers = runtime.NumCPU()
	if e.Workers > 16 {
		e.Workers = 16
	}
	return e
}

// N picks the tier size.
func (e *Env) N(quick, thorough int) int {
	if e.Thorough {
		return thorough
	}
	return quick
}

// Types returns the pinned types this run looks at (all 170 unless --only).
func (e *Env) Types() []*schema.Type {
	var r []*schema.Type
	for _, t := range e.S.Order {
		if e.Only == "" || e.Only == t.QName {
			r = append(r, t)
		}
	}
	return r
}

// Par runs f(i) for i in [0,n) on the worker pool.
func (e *Env) Par(n int, f func(i int)) {
	var wg sync.WaitGroup
	ch := make(chan int, n)
	for i := 0; i < n; i++ {
		ch <- i
	}
	close(ch)
	w := e.Workers
	if w > n {
		w = n
	}
	for k := 0; k < w; k++ {
		wg.Add(1)
		go func() {
			defer wg.Done()
			for i := range ch {
				f(i)
			}
		}()
	}
	wg.Wait()
}

func (e *Env) Gen(o *gen.Opts, parts ...any) *gen.Gen {
	p := append([]any{e.R.Prop}, parts...)
	return &gen.Gen{S: e.S, C: e.C, R: gen.NewRng(e.Seed, p...), O: o}
}

// ---------------------------------------------------------------- library calls (through the panic trap)

type encoderNoErr interface{ Encode(*bytes.Buffer) }

// LibEncode calls the library encoder of msg.
func LibEncode(msg any, buf *bytes.Buffer) (error, *mon.Panic) {
	return mon.Call(func() error {
		switch m := msg.(type) {
		case codec.BinaryCodec:
			return m.Encode(buf)
		case encoderNoErr:
			m.Encode(buf)
			return nil
		}
		return fmt.Errorf("harness: %T has no Encode", msg)
	})
}

type decoder interface{ Decode(*bytes.Buffer) error }

func LibDecode(msg any, buf *bytes.Buffer) (error, *mon.Panic) {
	return mon.Call(func() error {
		if m, ok := msg.(decoder); ok {
			return m.Decode(buf)
		}
		return fmt.Errorf("harness: %T has no Decode", msg)
	})
}

// NewVia returns a fresh receiver of the named type: the generated constructor NewT() when alt is odd and one
// exists, the plain &T{} otherwise.  Applications obtain their message objects both ways; objects obtained from
// two constructor calls must be as independent as two &T{}.
func (e *Env) NewVia(qname string, alt int) any {
	if alt%2 == 1 {
		if ctor := bind.Ctors[qname]; ctor != nil {
			return ctor()
		}
	}
	return e.C.New[qname]()
}

// EncodeFresh encodes into a new empty buffer and returns the bytes.
func EncodeFresh(msg any) ([]byte, error, *mon.Panic) {
	var b bytes.Buffer
	err, p := LibEncode(msg, &b)
	return b.Bytes(), err, p
}

// ---------------------------------------------------------------- computed fields

// servicesAbsent is set in the "checksum services unregistered" re-run of a check: a frame then carries the
// caller's checksum value through unchanged (that is what the generated encoders do), only the length is computed.
var servicesAbsent bool

// drainSvc wraps a registered checksum service: same algorithm name, same function of the bytes, but the
// buffer handed to Calc is read to its end first (io.ReadAll), as a service built on io.Copy would do.
type drainSvc[R any] struct {
	name  string
	inner codec.ChecksumService[*bytes.Buffer, R]
}

func (d *drainSvc[R]) Algorithm() string { return d.name }
func (d *drainSvc[R]) Calc(data *bytes.Buffer) R {
	b, _ := io.ReadAll(data)
	return d.inner.Calc(bytes.NewBuffer(b))
}

func installDrainingServices() {
	for _, name := range []string{"CRC16", "CRC32", "SSE_BIN", "SZSE_BIN"} {
		svc, ok := codec.Get(name)
		if !ok {
			continue
		}
		var repl any
		switch s := svc.(type) {
		case codec.ChecksumService[*bytes.Buffer, uint16]:
			repl = &drainSvc[uint16]{name, s}
		case codec.ChecksumService[*bytes.Buffer, uint32]:
			repl = &drainSvc[uint32]{name, s}
		case codec.ChecksumService[*bytes.Buffer, int32]:
			repl = &drainSvc[int32]{name, s}
		default:
			continue
		}
		codec.Remove(name)
		codec.Registry(repl)
	}
}

// frameInfo describes the self-computed fields of a frame type.
type frameInfo struct {
	lenField string
	lenKind  string
	hdr      int // bytes before the body (through the length field)
	lenOff   int
	sumField string
	sumKind  string
	alg      string
	union    string
}

func frameOf(t *schema.Type) *frameInfo {
	var fi frameInfo
	off := 0
	found := false
	for _, f := range t.Fields {
		switch f.Kind {
		case "bodylen":
			fi.lenField, fi.lenKind, fi.lenOff = f.Name, f.Prefix, off
			off += schema.Width(f.Prefix)
			fi.hdr = off
			found = true
		case "checksum":
			fi.sumField, fi.sumKind, fi.alg = f.Name, f.Prefix, f.Alg
		case "union":
			fi.union = f.Name
		default:
			off += schema.Width(f.Kind)
		}
	}
	if !found {
		return nil
	}
	return &fi
}

func (fi *frameInfo) trailer() int {
	if fi.sumField == "" {
		return 0
	}
	return schema.Width(fi.sumKind)
}

// withCorrectComputed returns a clone of frame msg whose computed fields hold the values that
// are correct for wire image w (length = bytes between header and trailer; checksum = own
// algorithm over everything before the trailer).
func withCorrectComputed(t *schema.Type, msg any, w []byte) any {
	fi := frameOf(t)
	c := val.Clone(msg)
	if fi == nil {
		return c
	}
	v := reflect.ValueOf(c).Elem()
	bl := len(w) - fi.hdr - fi.trailer()
	gen.SetScalarBits(v.FieldByName(fi.lenField), fi.lenKind, uint64(bl))
	if fi.sumField != "" && !servicesAbsent {
		x, _ := ref.Checksum(fi.alg, w[:len(w)-fi.trailer()])
		gen.SetScalarBits(v.FieldByName(fi.sumField), fi.sumKind, x)
	}
	return c
}

// ---------------------------------------------------------------- misc

func sortedKeys[V any](m map[string]V) []string {
	r := make([]string, 0, len(m))
	for k := range m {
		r = append(r, k)
	}
	sort.Strings(r)
	return r
}

func mergeFeat(dst, src map[string]int) {
	for k, v := range src {
		dst[k] += v
	}
}

// featLock guards merged feature maps.
type featAcc struct {
	mu sync.Mutex
	m  map[string]int
}

func newFeatAcc() *featAcc { return &featAcc{m: map[string]int{}} }
func (a *featAcc) merge(src map[string]int) {
	a.mu.Lock()
	mergeFeat(a.m, src)
	a.mu.Unlock()
}

// Registry of checks.
var Registry = map[string]func(*Env){}

func monRoot() string { return mon.Out }

func globLogs(dir string) []string {
	m, _ := filepath.Glob(filepath.Join(dir, "race*"))
	return m
}
