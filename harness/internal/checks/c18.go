package checks

import (
	"bytes"
	"fmt"
	"math"
	"os"
	"reflect"
	"strings"
	"syscall"
	"time"
	"unsafe"

	"github.com/xinchentechnote/fin-proto-go/codec"
	"golang.org/x/exp/constraints"

	"verif/internal/gen"
	"verif/internal/mon"
	"verif/internal/schema"
	"verif/internal/val"
)

func init() { Registry["C18"] = c18 }

type c18ctx struct {
	e     *Env
	prims map[string]int
}

func maxOf[T constraints.Unsigned]() int {
	var z T
	if m := uint64(^z); m < uint64(math.MaxInt) {
		return int(m)
	}
	return math.MaxInt // a 64-bit prefix can count anything that exists in memory
}

// judgeLimit applies the oracle to one writer call at length n against prefix maximum max.
func (c *c18ctx) judgeLimit(name string, n, max int, err error, p *mon.Panic, roundTrip func() string, out []byte) {
	r := c.e.R
	r.Evals(1)
	c.prims[name]++
	det := map[string]any{"primitive": name, "length": n, "prefix_max": max, "first_bytes_written": val.Hex(out, 16)}
	if p != nil {
		det["panic"] = p.Value
		r.Violate("C18/prim-panic/"+name, "C18/prim-panic/"+name, det)
		return
	}
	if n > max {
		if err == nil {
			det["observed"] = "writer returned nil error; the prefix on the wire is the length modulo 2^bits"
			r.Violate("C18/prim-silent-wrap/"+name, "C18/prim-silent-wrap/"+name, det)
		}
		return
	}
	if err != nil {
		det["error"] = err.Error()
		r.Violate("C18/prim-refuses-representable-length/"+name, "C18/prim-refuses-representable-length/"+name, det)
		return
	}
	if d := roundTrip(); d != "" {
		det["round_trip"] = d
		r.Violate("C18/prim-limit-does-not-round-trip/"+name, "C18/prim-limit-does-not-round-trip/"+name, det)
	}
}

// lengthsAround: for 8- and 16-bit prefixes the four lengths around the maximum; for 32- and 64-bit prefixes the
// maximum is out of reach (C18's u32 child handles 2^32), but "at and below the limit the value encodes and
// round-trips" still has to hold, in particular across the 8- and 16-bit boundaries.
func lengthsAround(max int) []int {
	if max > 1<<20 {
		return []int{0, 1, 255, 256, 65535, 65536, 70001}
	}
	return []int{max - 1, max, max + 1, 2*max + 1}
}

func c18String[T constraints.Unsigned](c *c18ctx) {
	max := maxOf[T]()
	for _, le := range []bool{false, true} {
		name := pname(map[bool]string{false: "WriteString", true: "WriteStringLE"}[le], prefName[T]())
		for _, n := range lengthsAround(max) {
			s := strings.Repeat("x", n)
			var b bytes.Buffer
			err, p := mon.Call(func() error {
				if le {
					return codec.WriteStringLE[T](&b, s)
				}
				return codec.WriteString[T](&b, s)
			})
			c.judgeLimit(name, n, max, err, p, func() string {
				var got string
				var e2 error
				if le {
					got, e2 = codec.ReadStringLE[T](bytes.NewBuffer(b.Bytes()))
				} else {
					got, e2 = codec.ReadString[T](bytes.NewBuffer(b.Bytes()))
				}
				if e2 != nil || got != s {
					return fmt.Sprintf("read back %d bytes, err %v", len(got), e2)
				}
				return ""
			}, b.Bytes())
		}
	}
}

func c18BasicList[T constraints.Unsigned, K codec.BasicType](c *c18ctx) {
	max := maxOf[T]()
	for _, le := range []bool{false, true} {
		name := pname(map[bool]string{false: "WriteBasicTypeList", true: "WriteBasicTypeListLE"}[le], prefName[T](), kindOf[K]())
		for _, n := range lengthsAround(max) {
			vs := make([]K, n)
			for i := range vs {
				vs[i] = fromBits[K](uint64(i*7 + 1))
			}
			var b bytes.Buffer
			err, p := mon.Call(func() error {
				if le {
					return codec.WriteBasicTypeListLE[T](&b, vs)
				}
				return codec.WriteBasicTypeList[T](&b, vs)
			})
			c.judgeLimit(name, n, max, err, p, func() string {
				var got []K
				var e2 error
				if le {
					got, e2 = codec.ReadBasicTypeListLE[T, K](bytes.NewBuffer(b.Bytes()))
				} else {
					got, e2 = codec.ReadBasicTypeList[T, K](bytes.NewBuffer(b.Bytes()))
				}
				if e2 != nil || len(got) != n {
					return fmt.Sprintf("read back %d elements, err %v", len(got), e2)
				}
				for i := range got {
					if bitsOf(got[i]) != bitsOf(vs[i]) {
						return fmt.Sprintf("element %d differs", i)
					}
				}
				return ""
			}, b.Bytes())
		}
	}
}

func c18FixedList[T constraints.Unsigned](c *c18ctx) {
	max := maxOf[T]()
	for _, le := range []bool{false, true} {
		name := pname(map[bool]string{false: "WriteFixedStringListWithPadding", true: "WriteFixedStringListWithPaddingLE"}[le], prefName[T]())
		for _, n := range lengthsAround(max) {
			vs := make([]string, n)
			for i := range vs {
				vs[i] = string(rune('a' + i%26))
			}
			var b bytes.Buffer
			err, p := mon.Call(func() error {
				if le {
					return codec.WriteFixedStringListWithPaddingLE[T](&b, vs, 2, ' ', false)
				}
				return codec.WriteFixedStringListWithPadding[T](&b, vs, 2, ' ', false)
			})
			c.judgeLimit(name, n, max, err, p, func() string {
				var got []string
				var e2 error
				if le {
					got, e2 = codec.ReadFixedStringListTrimPaddingLE[T](bytes.NewBuffer(b.Bytes()), 2, ' ', false)
				} else {
					got, e2 = codec.ReadFixedStringListTrimPadding[T](bytes.NewBuffer(b.Bytes()), 2, ' ', false)
				}
				if e2 != nil || val.Equal(got, vs) != "" {
					return fmt.Sprintf("read back %d texts, err %v", len(got), e2)
				}
				return ""
			}, b.Bytes())
		}
	}
}

func c18StringList[T constraints.Unsigned, K constraints.Unsigned](c *c18ctx) {
	maxT, maxK := maxOf[T](), maxOf[K]()
	for _, le := range []bool{false, true} {
		base := map[bool]string{false: "WriteStringList", true: "WriteStringListLE"}[le]
		write := func(b *bytes.Buffer, vs []string) (error, *mon.Panic) {
			return mon.Call(func() error {
				if le {
					return codec.WriteStringListLE[T, K](b, vs)
				}
				return codec.WriteStringList[T, K](b, vs)
			})
		}
		read := func(b []byte) ([]string, error) {
			if le {
				return codec.ReadStringListLE[T, K](bytes.NewBuffer(b))
			}
			return codec.ReadStringList[T, K](bytes.NewBuffer(b))
		}
		// list count
		for _, n := range lengthsAround(maxT) {
			vs := make([]string, n)
			for i := range vs {
				vs[i] = "s"
			}
			var b bytes.Buffer
			err, p := write(&b, vs)
			c.judgeLimit(pname(base+"/count", prefName[T](), prefName[K]()), n, maxT, err, p, func() string {
				got, e2 := read(b.Bytes())
				if e2 != nil || val.Equal(got, vs) != "" {
					return fmt.Sprintf("read back %d texts, err %v", len(got), e2)
				}
				return ""
			}, b.Bytes())
		}
		// per-string length
		for _, n := range lengthsAround(maxK) {
			vs := []string{"a", strings.Repeat("y", n), "b"}
			var b bytes.Buffer
			err, p := write(&b, vs)
			c.judgeLimit(pname(base+"/element-length", prefName[T](), prefName[K]()), n, maxK, err, p, func() string {
				got, e2 := read(b.Bytes())
				if e2 != nil || val.Equal(got, vs) != "" {
					return fmt.Sprintf("read back %d texts, err %v", len(got), e2)
				}
				return ""
			}, b.Bytes())
		}
	}
}

func c18ObjList[T constraints.Unsigned](c *c18ctx) {
	max := maxOf[T]()
	for _, le := range []bool{false, true} {
		name := pname(map[bool]string{false: "WriteObjectList", true: "WriteObjectListLE"}[le], prefName[T]())
		for _, n := range lengthsAround(max) {
			vs := make([]*rawObj, n)
			for i := range vs {
				vs[i] = &rawObj{b: [3]byte{byte(i), byte(i >> 8), 7}}
			}
			var b bytes.Buffer
			err, p := mon.Call(func() error {
				if le {
					return codec.WriteObjectListLE[T](&b, vs)
				}
				return codec.WriteObjectList[T](&b, vs)
			})
			c.judgeLimit(name, n, max, err, p, func() string {
				var got []*rawObj
				var e2 error
				if le {
					got, e2 = codec.ReadObjectListLE[T](bytes.NewBuffer(b.Bytes()), func() *rawObj { return &rawObj{} })
				} else {
					got, e2 = codec.ReadObjectList[T](bytes.NewBuffer(b.Bytes()), func() *rawObj { return &rawObj{} })
				}
				if e2 != nil || len(got) != n {
					return fmt.Sprintf("read back %d objects, err %v", len(got), e2)
				}
				for i := range got {
					if got[i].b != vs[i].b {
						return fmt.Sprintf("object %d differs", i)
					}
				}
				return ""
			}, b.Bytes())
		}
	}
}

func c18Prefix[T constraints.Unsigned](c *c18ctx) {
	c18String[T](c)
	c18BasicList[T, uint8](c)
	c18BasicList[T, int16](c)
	c18BasicList[T, uint32](c)
	c18BasicList[T, int64](c)
	c18BasicList[T, float64](c)
	c18FixedList[T](c)
	c18StringList[T, uint8](c)
	c18StringList[T, uint16](c)
	c18StringList[T, uint32](c)
	c18StringList[T, uint64](c)
	c18ObjList[T](c)
}

// ---------------------------------------------------------------- message level

type lenSite struct {
	field *schema.Field
	what  string // "count" | "text-length" | "element-text-length"
	max   int
}

func lenSites(t *schema.Type) []lenSite {
	var r []lenSite
	for i := range t.Fields {
		f := &t.Fields[i]
		switch f.Kind {
		case "pstr":
			r = append(r, lenSite{f, "text-length", int(schema.MaxPrefix(f.Prefix))})
		case "list":
			r = append(r, lenSite{f, "count", int(schema.MaxPrefix(f.Prefix))})
			if f.Elem.Kind == "pstr" {
				r = append(r, lenSite{f, "element-text-length", int(schema.MaxPrefix(f.Elem.Prefix))})
			}
		case "objlist":
			r = append(r, lenSite{f, "count", int(schema.MaxPrefix(f.Prefix))})
		}
	}
	return r
}

// overlongCase builds a value of some type that holds, somewhere in its tree, exactly one field with max+1
// elements / bytes behind an 8- or 16-bit prefix.
type overlongCase struct {
	site  string
	build func() any
}

func overlongCases(e *Env, t *schema.Type, depth int) []overlongCase {
	var out []overlongCase
	for _, s := range lenSites(t) {
		if s.max > 0xFFFF {
			continue
		}
		s := s
		out = append(out, overlongCase{fmt.Sprintf("%s.%s(%s)", t.QName, s.field.Name, s.what), func() any {
			g := e.Gen(&gen.Opts{Lens: []int{1}, StrLens: []int{2}, NoNilBody: true}, "C18-overlong", t.QName, s.field.Name, s.what)
			v := g.Value(t)
			setLen(e, t, v, s, s.max+1, g)
			return v
		}})
	}
	if depth >= 3 {
		return out
	}
	for i := range t.Fields {
		f := &t.Fields[i]
		switch f.Kind {
		case "objlist", "struct":
			et := e.S.Lookup(t.Pkg, f.Type)
			if et == nil {
				continue
			}
			for _, c := range overlongCases(e, et, depth+1) {
				c := c
				out = append(out, overlongCase{t.QName + "." + f.Name + "{" + c.site + "}", func() any {
					g := e.Gen(&gen.Opts{Lens: []int{2}, StrLens: []int{2}, NoNilBody: true}, "C18-overlong", t.QName, f.Name, c.site)
					v := g.Value(t)
					fv := reflect.ValueOf(v).Elem().FieldByName(f.Name)
					child := reflect.ValueOf(c.build())
					switch {
					case f.Kind == "objlist":
						if fv.Len() == 0 {
							fv.Set(reflect.MakeSlice(fv.Type(), 1, 1))
						}
						fv.Index(fv.Len() - 1).Set(child)
					case f.Value:
						fv.Set(child.Elem())
					default:
						fv.Set(child)
					}
					return v
				}})
			}
		case "union":
			tb := e.S.Table(t.Pkg, f.Table)
			for _, en := range tb.Entries {
				en := en
				bt := e.S.Lookup(t.Pkg, en.Type)
				if bt == nil {
					continue
				}
				for _, c := range overlongCases(e, bt, depth+1) {
					c := c
					out = append(out, overlongCase{t.QName + "." + f.Name + "{" + c.site + "}", func() any {
						g := e.Gen(&gen.Opts{Lens: []int{1}, StrLens: []int{2}, NoNilBody: true, ForceKey: map[string]any{tb.QName: en.Key}}, "C18-overlong", t.QName, f.Name, c.site)
						v := g.Value(t)
						reflect.ValueOf(v).Elem().FieldByName(f.Name).Set(reflect.ValueOf(c.build()))
						return v
					}})
				}
			}
		}
	}
	return out
}

// setLen sets the site of message v to exactly n bytes / elements.
func setLen(e *Env, t *schema.Type, v any, s lenSite, n int, g *gen.Gen) {
	fv := reflect.ValueOf(v).Elem().FieldByName(s.field.Name)
	switch s.what {
	case "text-length":
		fv.SetString(strings.Repeat("t", n))
	case "element-text-length":
		sl := reflect.MakeSlice(fv.Type(), 2, 2)
		sl.Index(0).SetString("e")
		sl.Index(1).SetString(strings.Repeat("u", n))
		fv.Set(sl)
	case "count":
		sl := reflect.MakeSlice(fv.Type(), n, n)
		if s.field.Kind == "objlist" {
			et := e.S.Lookup(t.Pkg, s.field.Type)
			proto := (&gen.Gen{S: e.S, C: e.C, R: g.R, O: &gen.Opts{Lens: []int{1}, StrLens: []int{2}}}).Value(et)
			for i := 0; i < n; i++ {
				sl.Index(i).Set(reflect.ValueOf(val.Clone(proto)))
			}
		} else if s.field.Elem.Kind == "fixstr" || s.field.Elem.Kind == "pstr" {
			for i := 0; i < n; i++ {
				sl.Index(i).SetString("k")
			}
		} else {
			for i := 0; i < n; i++ {
				gen.SetScalarBits(sl.Index(i), s.field.Elem.Kind, uint64(i)*2654435761+1)
			}
		}
		fv.Set(sl)
	}
}

func c18Messages(e *Env, u32 bool) {
	r := e.R
	types := e.Types()
	acc := newFeatAcc()
	e.Par(len(types), func(i int) {
		t := types[i]
		for _, s := range lenSites(t) {
			if (s.max > 0xFFFF) != u32 {
				continue
			}
			for _, n := range []int{s.max, s.max + 1} {
				g := e.Gen(&gen.Opts{Lens: []int{1}, StrLens: []int{2}}, t.QName, s.field.Name, s.what, n)
				v := g.Value(t)
				setLen(e, t, v, s, n, g)
				site := fmt.Sprintf("%s.%s(%s)", t.QName, s.field.Name, s.what)
				w, err, p := EncodeFresh(val.Clone(v))
				r.Evals(1)
				det := map[string]any{"type": t.QName, "site": site, "length": n, "prefix_max": s.max, "first_bytes": val.Hex(w, 24), "encoded_len": len(w)}
				if p != nil {
					det["panic"] = p.Value
					r.Violate("C18/msg-panic/"+site, "C18/msg-panic/"+t.QName, det)
					continue
				}
				if n > s.max {
					acc.merge(map[string]int{"sites-at-max+1": 1})
					if err == nil {
						det["observed"] = "Encode returned nil error with a wrapped prefix followed by the full data"
						// show what it decodes as
						d := e.C.New[t.QName]()
						b := bytes.NewBuffer(append([]byte(nil), w...))
						derr, _ := LibDecode(d, b)
						det["decodes_as"] = fmt.Sprintf("err=%v, %d bytes left unread", derr, b.Len())
						r.Violate("C18/msg-silent-wrap/"+site, "C18/msg-silent-wrap/"+t.QName, det)
					}
					continue
				}
				acc.merge(map[string]int{"sites-at-max": 1})
				if err != nil {
					det["error"] = err.Error()
					r.Violate("C18/msg-refuses-representable-length/"+site, "C18/msg-refuses-representable-length/"+t.QName, det)
					continue
				}
				d := e.C.New[t.QName]()
				b := bytes.NewBuffer(append([]byte(nil), w...))
				derr, dp := LibDecode(d, b)
				if derr != nil || dp != nil || b.Len() != 0 || val.Equal(withCorrectComputed(t, v, w), d) != "" {
					det["round_trip"] = fmt.Sprintf("err=%v panic=%v left=%d diff=%s", derr, dp, b.Len(), val.Equal(withCorrectComputed(t, v, w), d))
					r.Violate("C18/msg-limit-does-not-round-trip/"+site, "C18/msg-limit-does-not-round-trip/"+t.QName, det)
					continue
				}
				r.Distinct(val.Hash(site) + uint64(n))
				if i%40 == 0 {
					r.Sample(map[string]any{"site": site, "length": n, "verdict": "encodes and round-trips at the prefix maximum"})
				}
			}
		}
		// propagation: an over-long field anywhere below this message - in an element of an object list, a nested
		// part, a frame body, an application extension, or an extension inside a body inside a frame - must make
		// the OUTERMOST Encode fail
		if !u32 {
			for _, c := range overlongCases(e, t, 0) {
				if !strings.Contains(c.site, "{") {
					continue // the message's own sites were judged above
				}
				v := c.build()
				_, err, p := EncodeFresh(v)
				r.Evals(1)
				if p != nil || err == nil {
					r.Violate("C18/nested-silent-wrap/"+c.site, "C18/nested-silent-wrap/"+t.QName, map[string]any{"type": t.QName, "site": c.site, "panic": fmt.Sprint(p), "observed": "the enclosing message encoded 'successfully' although a part below it holds one element / byte more than its prefix can represent"})
				} else {
					acc.merge(map[string]int{"enclosing-messages-refusing-overlong-nested-field": 1, fmt.Sprintf("nesting-depth-%d", strings.Count(c.site, "{")): 1})
					r.Distinct(val.Hash(c.site))
				}
			}
		}
	})
	for k, v := range acc.m {
		r.Count(k, int64(v))
	}
}

// hugeString fabricates an n-byte string over an untouched anonymous mapping (pages are not
// touched unless somebody copies them).  Harness-side only.
func hugeString(n int) (string, func(), error) {
	b, err := syscall.Mmap(-1, 0, n, syscall.PROT_READ, syscall.MAP_PRIVATE|syscall.MAP_ANON|syscall.MAP_NORESERVE)
	if err != nil {
		return "", nil, err
	}
	return unsafe.String(&b[0], n), func() { syscall.Munmap(b) }, nil
}

func c18U32Child(e *Env) {
	r := e.R
	// prefixed text behind a 32-bit length: 2^32 bytes must be refused; 2^32-1 is not attempted
	// (it would need a 4 GiB copy to succeed legitimately), 2^32 and 2^32+5 are.
	for _, n := range []int{1 << 32, 1<<32 + 5} {
		s, free, err := hugeString(n)
		if err != nil {
			r.Inconclusive("cannot map a 4 GiB string: " + err.Error())
			return
		}
		for _, le := range []bool{false, true} {
			name := map[bool]string{false: "WriteString[uint32]", true: "WriteStringLE[uint32]"}[le]
			b := new(bytes.Buffer)
			log := openChildLog()
			log.begin(n, name)
			werr, p := mon.Call(func() error {
				if le {
					return codec.WriteStringLE[uint32](b, s)
				}
				return codec.WriteString[uint32](b, s)
			})
			log.end(n)
			r.Evals(1)
			r.DistinctAdd(1)
			if p != nil {
				r.Violate("C18/prim-panic/"+name, "C18/prim-panic/"+name, map[string]any{"primitive": name, "length": n, "panic": p.Value})
			} else if werr == nil {
				r.Violate("C18/prim-silent-wrap/"+name, "C18/prim-silent-wrap/"+name, map[string]any{"primitive": name, "length": n, "prefix_max": uint32(0xFFFFFFFF), "first_bytes_written": val.Hex(b.Bytes(), 8), "buffer_len": b.Len()})
			}
			b.Reset()
		}
		// a message with a u32-prefixed text field (risk NewOrder.UniqueOrderId)
		if t := e.S.Types["risk.NewOrder"]; t != nil && n == 1<<32 {
			v := e.C.New[t.QName]()
			reflect.ValueOf(v).Elem().FieldByName("UniqueOrderId").SetString(s)
			_, eerr, p := EncodeFresh(v)
			r.Evals(1)
			if p != nil || eerr == nil {
				r.Violate("C18/msg-silent-wrap/risk.NewOrder.UniqueOrderId(text-length)", "C18/msg-silent-wrap/risk.NewOrder", map[string]any{"type": "risk.NewOrder", "length": n, "panic": fmt.Sprint(p)})
			}
		}
		free()
	}
	// 2^32 (+3) list entries behind a 32-bit count cost nothing when the entries are zero-sized
	for _, n := range []int{1 << 32, 1<<32 + 3} {
		vs := make([]zeroObj, n)
		for _, le := range []bool{false, true} {
			name := map[bool]string{false: "WriteObjectList[uint32]", true: "WriteObjectListLE[uint32]"}[le]
			b := new(bytes.Buffer)
			log := openChildLog()
			log.begin(n, name)
			werr, p := mon.Call(func() error {
				if le {
					return codec.WriteObjectListLE[uint32](b, vs)
				}
				return codec.WriteObjectList[uint32](b, vs)
			})
			log.end(n)
			r.Evals(1)
			r.DistinctAdd(1)
			if p != nil {
				r.Violate("C18/prim-panic/"+name, "C18/prim-panic/"+name, map[string]any{"primitive": name, "length": n, "panic": p.Value})
			} else if werr == nil {
				r.Violate("C18/prim-silent-wrap/"+name, "C18/prim-silent-wrap/"+name, map[string]any{"primitive": name, "length": n, "prefix_max": uint32(0xFFFFFFFF), "first_bytes_written": val.Hex(b.Bytes(), 8), "note": "2^32 zero-sized entries"})
			}
		}
	}
}

// zeroObj is a zero-sized list entry: a slice of 2^32 of them occupies no memory.
type zeroObj struct{}

func (zeroObj) Encode(*bytes.Buffer) error { return nil }
func (zeroObj) Decode(*bytes.Buffer) error { return nil }

func c18(e *Env) {
	r := e.R
	if len(e.Args) > 0 && e.Args[0] == "u32-child" {
		c18U32Child(e)
		return
	}
	r.Rule("primitive level: every prefixed writer (WriteString, WriteBasicTypeList ×5 element types, WriteFixedStringListWithPadding, WriteStringList count and per-element length, WriteObjectList; BE and LE variants) × prefix u8, u16 and defined types over them (`type Len uint16`) × lengths {max-1, max, max+1, 2·max+1}; message level: every prefixed-text / list / object-list field of every message type set to exactly max and max+1 (all other fields canonical), and every such body field at max+1 inside its frame (error must propagate); and, in a child process, 2^32 and 2^32+5 bytes behind a u32 text prefix (a 4 GiB never-touched mapping) and 2^32 / 2^32+3 zero-sized entries behind a u32 object-list count. distinct_nontrivial = distinct (site, length) observations")
	r.Explain("Oracle: length <= prefix maximum ⇒ nil error and the matching reader returns the value (message level: full round trip ≡); length > maximum ⇒ non-nil error. A nil error above the maximum is the silent wrap the property forbids. Lists of 2^32 NON-empty elements (32 GiB of slice headers) are not reachable in this sandbox; the 32-bit count limit is exercised with zero-sized entries instead.")
	r.Assume("u32-prefixed lists beyond 2^32 elements are out of reach (memory); u32-prefixed text is exercised in the thorough tier only")
	if e.Only == "" || e.Only == "primitives" {
		c := &c18ctx{e: e, prims: map[string]int{}}
		c18Prefix[uint8](c)
		c18Prefix[uint16](c)
		c18Prefix[namedPfx8](c) // defined prefix types (type Len uint16) are admitted by the ~ constraint
		c18Prefix[namedPfx16](c)
		c18Prefix[uint32](c) // wide prefixes: every reachable length is below the limit and must encode and round-trip
		c18Prefix[uint64](c)
		r.Set("primitive_instantiations", len(c.prims))
		r.DistinctAdd(int64(len(c.prims)) * 4)
		r.Sample(map[string]any{"primitives": sortedKeys(c.prims)[:8], "lengths": "max-1, max, max+1, 2*max+1"})
	}
	if e.Only != "primitives" {
		c18Messages(e, false)
	}
	if e.Only == "" {
		outPath := monRoot() + "/.work/C18-u32.out"
		logPath := monRoot() + "/.work/C18-u32.log"
		os.Remove(logPath)
		cmdArgs := []string{"C18", "--tier", e.Tier, "--seed", fmt.Sprint(e.Seed), "u32-child"}
		died, timedOut, sum, relayed := runOneChild(cmdArgs, logPath, outPath, 20*time.Minute, nil)
		r.Relay(relayed)
		r.Evals(sum.Evaluations)
		r.DistinctAdd(sum.Distinct)
		r.AddViolations(sum.Violations)
		r.Set("u32_text_child", map[string]any{"evaluations": sum.Evaluations, "violations": sum.Violations, "died": died, "timed_out": timedOut})
		if died || timedOut {
			if _, id, open := lastInflight(logPath); open {
				r.Violate("C18/prim-not-refused-process-died/"+id, "C18/prim-not-refused-process-died/"+id, map[string]any{"primitive": id, "length": "2^32", "output": tailFile(outPath, 800)})
			} else {
				r.Inconclusive("the 4 GiB text child did not complete: " + tailFile(outPath, 600))
			}
		}
	}
}
