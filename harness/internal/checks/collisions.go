package checks

// fnv64Pairs are pairs of distinct 16-character texts with equal 64-bit FNV-1a sums.  A birthday search in
// a 64-bit space costs ~5e9 hash evaluations, too much for a check that runs on every change, so the pairs
// were found once by cmd/fnvcollide (parallel distinguished-point search, ~13 s on 16 cores) and are kept
// here as data; collidingPairs re-verifies each pair (distinct, same length, same sum) before using it.
var fnv64Pairs = [][2]string{
	{"GFJDDOEPDGANGECF", "HNKIBDNILDMAPOHN"}, // both 0xea801bb24895b495
	{"ELKHONMNECAKAMPL", "DMPPBIALJALJDIPK"}, // both 0x0543245a641ce987
	{"JOHMIOPCAPEPOPIH", "EHHHLGAGGBCEMLPE"}, // both 0x959012a9b166f62a
	{"DGFEDNJCHDKAEMJP", "GKIEIHLAGNDFOOGK"}, // both 0x486a95dbe8b0d4c8
}

func fnv1a64(s string) uint64 {
	h := uint64(14695981039346656037)
	for i := 0; i < len(s); i++ {
		h = (h ^ uint64(s[i])) * 1099511628211
	}
	return h
}

// fnv1 (multiply first) variants of the 32-bit family are covered by the birthday search in collidingPairs.
func verifiedFnv64Pairs() [][3]string {
	var out [][3]string
	for _, p := range fnv64Pairs {
		if p[0] != p[1] && len(p[0]) == len(p[1]) && fnv1a64(p[0]) == fnv1a64(p[1]) {
			out = append(out, [3]string{p[0], p[1], "FNV-1a-64"})
		}
	}
	return out
}
