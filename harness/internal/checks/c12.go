package checks

import (
	"bytes"
	"errors"
	"fmt"
	"reflect"
	"strconv"
	"strings"
	"sync/atomic"

	"github.com/xinchentechnote/fin-proto-go/codec"

	"verif/internal/bind"
	"verif/internal/gen"
	"verif/internal/mon"
	"verif/internal/ref"
	"verif/internal/schema"
	"verif/internal/val"
)

func init() { Registry["C12"] = c12 }

type carrier struct {
	t     *schema.Type
	tb    *schema.Table
	union string
	key   any
}

// frameCarrying finds a frame type whose discriminator table registers owner as a body.
func frameCarrying(e *Env, owner *schema.Type) *carrier {
	for _, q := range e.S.TableNames() {
		tb := e.S.Tables[q]
		ft := e.S.Lookup(tb.Mod.Pkg, tb.Owner)
		if ft == nil || ft.Pkg != owner.Pkg || ft == owner {
			continue
		}
		for _, en := range tb.Entries {
			if en.Type == owner.Name {
				for _, f := range ft.Fields {
					if f.Kind == "union" && f.Table == tb.Name {
						return &carrier{ft, tb, f.Name, en.Key}
					}
				}
			}
		}
	}
	return nil
}

// dynType names the dynamic type held by an interface-typed field ("<nil>" when it holds nothing).
func dynType(v reflect.Value) string {
	if !v.IsValid() || ((v.Kind() == reflect.Interface || v.Kind() == reflect.Pointer) && v.IsNil()) {
		return "<nil>"
	}
	return fmt.Sprint(v.Elem().Type())
}

type tableCtx struct {
	tb      *schema.Table
	owner   *schema.Type
	uf      *schema.Field // union field of the owner
	factory func(any) (codec.BinaryCodec, error)
}

func (e *Env) tableCtxs() []*tableCtx {
	var r []*tableCtx
	for _, q := range e.S.TableNames() {
		tb := e.S.Tables[q]
		owner := e.S.Lookup(tb.Mod.Pkg, tb.Owner)
		tc := &tableCtx{tb: tb, owner: owner, factory: bind.Factories[q]}
		for i := range owner.Fields {
			if owner.Fields[i].Kind == "union" && owner.Fields[i].Table == tb.Name {
				tc.uf = &owner.Fields[i]
			}
		}
		if e.Only == "" || e.Only == q || e.Only == owner.QName {
			r = append(r, tc)
		}
	}
	return r
}

func setKeyField(msg any, field string, key any) {
	kv := reflect.ValueOf(msg).Elem().FieldByName(field)
	switch k := key.(type) {
	case uint64:
		kv.SetUint(k)
	case string:
		kv.SetString(k)
	}
}

// c12Rereg runs in its own process (it changes process-wide tables): every table offers an exported
// Registry<Table>Factory function for run-time registration; at the pinned commit a later registration of a key
// replaces the earlier one.  After key k1 is re-registered with the type pinned for k2, "the type registered for
// k1" is that type: the factory must answer with it and the decoder must build it - then the original
// registration is put back and must be in force again.
func c12Rereg(e *Env) {
	r := e.R
	obs := map[string]int{}
	for _, tc := range e.tableCtxs() {
		tb, owner := tc.tb, tc.owner
		reg := bind.Registrars[tb.QName]
		if reg == nil || len(tb.Entries) < 2 {
			continue
		}
		en1 := tb.Entries[0]
		var en2 *schema.Entry
		for i := range tb.Entries[1:] {
			if tb.Entries[1+i].Type != en1.Type {
				en2 = &tb.Entries[1+i]
				break
			}
		}
		if en2 == nil {
			continue
		}
		t1, t2 := e.S.Lookup(owner.Pkg, en1.Type), e.S.Lookup(owner.Pkg, en2.Type)
		v1 := e.Gen(&gen.Opts{NoNilBody: true, ForceKey: map[string]any{tb.QName: en1.Key}}, "C12-rereg", tb.QName, 1).Value(owner)
		v2 := e.Gen(&gen.Opts{NoNilBody: true, ForceKey: map[string]any{tb.QName: en2.Key}}, "C12-rereg", tb.QName, 2).Value(owner)
		img1, toks1, err1 := e.C.EncodeTok(owner, val.Clone(v1))
		img2, toks2, err2 := e.C.EncodeTok(owner, val.Clone(v2))
		if err1 != nil || err2 != nil {
			continue
		}
		site := owner.QName + "." + tc.uf.Key
		k1, k2 := -1, -1
		for i, tk := range toks1 {
			if tk.Site == site {
				k1 = i
				break
			}
		}
		for i, tk := range toks2 {
			if tk.Site == site {
				k2 = i
				break
			}
		}
		if k1 < 0 || k2 < 0 || toks1[k1].W != toks2[k2].W {
			continue
		}
		// the image of v2 (body of type t2) carrying key k1
		img := append([]byte(nil), img2...)
		copy(img[toks2[k2].Off:toks2[k2].Off+toks2[k2].W], img1[toks1[k1].Off:toks1[k1].Off+toks1[k1].W])
		det := map[string]any{"table": tb.QName, "owner": owner.QName, "key": fmtKey(en1.Key), "pinned_type": t1.QName, "re-registered_with": t2.QName}
		_, p := mon.Call(func() error {
			reg(en1.Key, func() codec.BinaryCodec { return e.C.New[t2.QName]().(codec.BinaryCodec) })
			return nil
		})
		r.Evals(1)
		if p != nil {
			det["panic"] = p.Value
			r.Violate("C12/re-registration-panics/"+tb.QName, "C12/re-registration/"+tb.QName, det)
			continue
		}
		want2 := reflect.TypeOf(e.C.New[t2.QName]())
		m, ferr := tc.factory(en1.Key)
		d := e.C.New[owner.QName]()
		buf := bytes.NewBuffer(append([]byte(nil), img...))
		derr, dp := LibDecode(d, buf)
		body := reflect.ValueOf(d).Elem().FieldByName(tc.uf.Name)
		switch {
		case ferr != nil || reflect.TypeOf(m) != want2:
			det["factory_answer"], det["factory_error"] = fmt.Sprintf("%T", m), fmt.Sprint(ferr)
			r.Violate("C12/factory-ignores-re-registration/"+tb.QName, "C12/re-registration/"+tb.QName, det)
		case dp != nil || derr != nil || buf.Len() != 0 || dynType(body) != want2.String():
			det["decode_error"], det["panic"], det["left_in_buffer"], det["decoder_built"] = fmt.Sprint(derr), fmt.Sprint(dp), buf.Len(), dynType(body)
			r.Violate("C12/decoder-ignores-re-registration/"+tb.QName, "C12/re-registration/"+tb.QName, det)
		default:
			if diff := val.Equal(reflect.ValueOf(v2).Elem().FieldByName(tc.uf.Name).Interface(), body.Interface()); diff != "" {
				det["first_difference"] = diff
				r.Violate("C12/decoder-ignores-re-registration/"+tb.QName, "C12/re-registration/"+tb.QName, det)
			} else {
				obs["tables-honouring-a-later-registration"]++
			}
		}
		// put the pinned registration back: it must be in force again
		reg(en1.Key, func() codec.BinaryCodec { return e.C.New[t1.QName]().(codec.BinaryCodec) })
		if m, ferr := tc.factory(en1.Key); ferr != nil || reflect.TypeOf(m) != reflect.TypeOf(e.C.New[t1.QName]()) {
			det["factory_answer_after_restoring"] = fmt.Sprintf("%T", m)
			r.Violate("C12/factory-ignores-re-registration/"+tb.QName, "C12/re-registration/"+tb.QName, det)
		} else {
			obs["tables-restored"]++
		}
		r.Distinct(val.Hash(tb.QName + "/rereg"))
	}
	r.Set("re_registration", obs)
}

func c12(e *Env) {
	r := e.R
	if len(e.Args) > 0 && e.Args[0] == "reregistration-child" {
		c12Rereg(e)
		return
	}
	r.Rule("all 18 discriminator tables. Registered keys (226): decode of a reference-built image (into a fresh receiver and into a receiver that just decoded another member of the same table, followed by an unregistered key into that same receiver), encode-fill with a nil body/extension where the encoder fills (BjseBinary and the 13 extended messages), public factory; bodies: zero and 3..20 canonical values. Unregistered keys: factory probed on the whole u16 space, on every u32 key < 2^20 (thorough 2^24), every key within Hamming distance <= 2 or one decimal-digit edit of a registered key, byte-swapped registered keys and 10^5 (thorough 10^7) random others; string tables on every string of length <= 3 over {0-9,space,NUL,'A',0xFF,'-','+'} plus every single-byte edit of a registered key over all 256 byte values (thorough: ALL byte strings of length <= 3, 16.8 M per table); decode and encode-fill probed on a sample of those keys. distinct_nontrivial = distinct (table, key) pairs probed")
	r.Explain("Oracle: the pinned key→type tables (frozen at the baseline commit). Registered key ⇒ decoder builds exactly the pinned type (reflect type identity) and the value round-trips; encoder fills exactly that type and its bytes equal the reference rendering with a zero body; factory returns that type. Unregistered key ⇒ factory returns (nil, error); Decode returns an error without panicking and leaves the body nil/unchanged; encode-fill returns an error; frames that do not fill (SSE, SZSE, risk, sample root) encode a nil body as an empty body and do not invent one. The set of keys a factory answers is thus compared with the pinned set in both directions.")
	r.Assume("u32 key spaces are swept exhaustively only below 2^20/2^24 (every registered number is < 2^20); the rest is sampled")
	tcs := e.tableCtxs()
	var probes int64
	acc := newFeatAcc()
	perKey := e.N(6, 300)
	// ---------------- registered keys
	e.Par(len(tcs), func(i int) {
		tc := tcs[i]
		tb, owner := tc.tb, tc.owner
		lf := map[string]int{}
		for _, en := range tb.Entries {
			bt := e.S.Lookup(owner.Pkg, en.Type)
			wantT := reflect.TypeOf(e.C.New[bt.QName]())
			det := func(extra map[string]any) map[string]any {
				m := map[string]any{"type": owner.QName, "table": tb.QName, "key": en.Key, "pinned_type": bt.QName}
				for k, x := range extra {
					m[k] = x
				}
				return m
			}
			// factory
			got, err := tc.factory(en.Key)
			r.Evals(1)
			if err != nil || got == nil || reflect.TypeOf(got) != wantT {
				r.Violate(fmt.Sprintf("C12/factory-wrong-type/%s/%v", tb.QName, en.Key), "C12/factory-wrong-type/"+tb.QName, det(map[string]any{"got": fmt.Sprintf("%T", got), "error": fmt.Sprint(err)}))
			}
			lf["registered:factory"]++
			// decode
			for k := 0; k < perKey; k++ {
				g := e.Gen(&gen.Opts{ForceKey: map[string]any{tb.QName: en.Key}}, tb.QName, fmt.Sprint(en.Key), k)
				v := g.Value(owner)
				if k == 0 {
					reflect.ValueOf(v).Elem().FieldByName(tc.uf.Name).Set(reflect.ValueOf(e.C.New[bt.QName]()))
				}
				img, rerr := e.C.Encode(owner, v)
				if rerr != nil {
					continue
				}
				d := e.C.New[owner.QName]()
				buf := bytes.NewBuffer(append([]byte(nil), img...))
				derr, p := LibDecode(d, buf)
				r.Evals(1)
				if p != nil || derr != nil {
					r.Violate(fmt.Sprintf("C12/registered-key-not-decoded/%s/%v", tb.QName, en.Key), "C12/registered-key-not-decoded/"+tb.QName, det(map[string]any{"error": fmt.Sprint(derr), "panic": fmt.Sprint(p), "image": val.Hex(img, 120)}))
					break
				}
				body := reflect.ValueOf(d).Elem().FieldByName(tc.uf.Name)
				if body.IsNil() || body.Elem().Type() != wantT {
					r.Violate(fmt.Sprintf("C12/decoder-built-wrong-type/%s/%v", tb.QName, en.Key), "C12/decoder-built-wrong-type/"+tb.QName, det(map[string]any{"got": dynType(body)}))
					break
				}
				rm, _, _, _ := e.C.Decode(owner, img, false) // reference reading of the same image (materialises nested parts of a zero body)
				if diff := val.Equal(rm, d); diff != "" || buf.Len() != 0 {
					r.Violate(fmt.Sprintf("C12/registered-key-round-trip/%s/%v", tb.QName, en.Key), "C12/registered-key-round-trip/"+tb.QName, det(map[string]any{"first_difference": diff, "left": buf.Len()}))
					break
				}
				lf["registered:decode"]++
			}
			// the same decisions on a receiver that was used before (a read loop reusing its objects):
			// decode key A, then key B into the same object, then an unregistered key
			if len(tb.Entries) > 1 {
				var en2 schema.Entry
				for k := range tb.Entries {
					if tb.Entries[k].Key == en.Key {
						en2 = tb.Entries[(k+1)%len(tb.Entries)]
					}
				}
				bt2 := e.S.Lookup(owner.Pkg, en2.Type)
				v1 := e.Gen(&gen.Opts{ForceKey: map[string]any{tb.QName: en.Key}}, tb.QName, fmt.Sprint(en.Key), "reuse1").Value(owner)
				v2 := e.Gen(&gen.Opts{ForceKey: map[string]any{tb.QName: en2.Key}}, tb.QName, fmt.Sprint(en.Key), "reuse2").Value(owner)
				img1, e1 := e.C.Encode(owner, v1)
				img2, e2 := e.C.Encode(owner, v2)
				if e1 == nil && e2 == nil {
					d := e.C.New[owner.QName]()
					LibDecode(d, bytes.NewBuffer(append([]byte(nil), img1...)))
					buf := bytes.NewBuffer(append([]byte(nil), img2...))
					derr, p := LibDecode(d, buf)
					r.Evals(1)
					body := reflect.ValueOf(d).Elem().FieldByName(tc.uf.Name)
					want2 := reflect.TypeOf(e.C.New[bt2.QName]())
					rm, _, _, _ := e.C.Decode(owner, img2, false)
					switch {
					case p != nil || derr != nil:
						r.Violate(fmt.Sprintf("C12/reused-receiver-rejects-registered-key/%s", tb.QName), "C12/reused-receiver/"+tb.QName, det(map[string]any{"second_key": en2.Key, "error": fmt.Sprint(derr), "panic": fmt.Sprint(p)}))
					case body.IsNil() || body.Elem().Type() != want2:
						r.Violate(fmt.Sprintf("C12/reused-receiver-keeps-stale-type/%s", tb.QName), "C12/reused-receiver/"+tb.QName, det(map[string]any{"second_key": en2.Key, "pinned_type_for_second_key": bt2.QName, "got": dynType(body)}))
					case val.Equal(rm, d) != "" || buf.Len() != 0:
						r.Violate(fmt.Sprintf("C12/reused-receiver-round-trip/%s", tb.QName), "C12/reused-receiver/"+tb.QName, det(map[string]any{"second_key": en2.Key, "first_difference": val.Equal(rm, d), "left": buf.Len()}))
					default:
						lf["registered:decode-into-reused-receiver"]++
						// now an unregistered key into the same (populated) receiver
						g := e.Gen(&gen.Opts{}, tb.QName, fmt.Sprint(en.Key), "reuse-unreg")
						v3 := g.Value(owner)
						setKeyField(v3, tc.uf.Key, g.UnregKeyFor(tb))
						if img3, e3 := e.C.Encode(owner, v3); e3 == nil {
							if _, _, _, derr3 := e.C.Decode(owner, img3, false); derr3 == ref.ErrUnknownKey {
								uerr, up := LibDecode(d, bytes.NewBuffer(append([]byte(nil), img3...)))
								r.Evals(1)
								if up != nil || uerr == nil {
									r.Violate(fmt.Sprintf("C12/reused-receiver-accepts-unregistered-key/%s", tb.QName), "C12/reused-receiver/"+tb.QName, det(map[string]any{"image": val.Hex(img3, 120), "panic": fmt.Sprint(up)}))
								} else {
									lf["unregistered:rejected-on-reused-receiver"]++
								}
							}
						}
					}
				}
			}
			// encode with a nil body
			m := (e.Gen(&gen.Opts{ForceKey: map[string]any{tb.QName: en.Key}}, tb.QName, fmt.Sprint(en.Key), "fill")).Value(owner)
			fv := reflect.ValueOf(m).Elem().FieldByName(tc.uf.Name)
			fv.Set(reflect.Zero(fv.Type()))
			want, rerr := e.C.Encode(owner, val.Clone(m))
			w, eerr, p := EncodeFresh(m)
			r.Evals(1)
			if p != nil {
				r.Violate("C12/encode-nil-body-panic/"+tb.QName, "C12/encode-nil-body-panic/"+tb.QName, det(map[string]any{"panic": p.Value}))
				continue
			}
			if tc.uf.Fill {
				if errors.Is(rerr, ref.ErrUnknownKey) {
					// the filled body is itself an extended message whose zero value has no registered
					// application id: refusing is the pinned behaviour (reference interpreter agrees)
					if eerr == nil {
						r.Violate(fmt.Sprintf("C12/encoder-fills-unfillable-nested-extension/%s/%v", tb.QName, en.Key), "C12/encoder-fills-unfillable-nested-extension/"+tb.QName, det(nil))
					}
					lf["registered:encode-fill-refused(nested extension has no id)"]++
					continue
				}
				if rerr != nil || eerr != nil {
					r.Violate(fmt.Sprintf("C12/encoder-does-not-fill/%s/%v", tb.QName, en.Key), "C12/encoder-does-not-fill/"+tb.QName, det(map[string]any{"error": fmt.Sprint(eerr), "ref_error": fmt.Sprint(rerr)}))
					continue
				}
				if fv.IsNil() || fv.Elem().Type() != wantT {
					got := "nil"
					if !fv.IsNil() {
						got = fmt.Sprint(fv.Elem().Type())
					}
					r.Violate(fmt.Sprintf("C12/encoder-filled-wrong-type/%s/%v", tb.QName, en.Key), "C12/encoder-filled-wrong-type/"+tb.QName, det(map[string]any{"got": got}))
					continue
				}
				if !bytes.Equal(w, want) {
					r.Violate(fmt.Sprintf("C12/encoder-fill-bytes/%s/%v", tb.QName, en.Key), "C12/encoder-fill-bytes/"+tb.QName, det(firstDiffPlain(w, want)))
					continue
				}
				lf["registered:encode-fill"]++
			} else {
				// frames that never fill: nil body encodes as an empty body, nothing is invented
				if eerr != nil || !fv.IsNil() || !bytes.Equal(w, want) {
					r.Violate(fmt.Sprintf("C12/non-filling-frame-guessed-a-body/%s/%v", tb.QName, en.Key), "C12/non-filling-frame-guessed-a-body/"+tb.QName, det(map[string]any{"error": fmt.Sprint(eerr), "body_after": fmt.Sprint(!fv.IsNil()), "bytes": val.Hex(w, 64), "want": val.Hex(want, 64)}))
					continue
				}
				lf["registered:nil-body-stays-nil"]++
			}
			// the same through the generated constructor: NewT() with only the discriminator set must encode exactly
			// like &T{} with only the discriminator set (a constructor that pre-populates a body or an extension
			// decides the type before the discriminator is known)
			if ctor := bind.Ctors[owner.QName]; ctor != nil {
				c, z := ctor(), e.C.New[owner.QName]()
				setKeyField(c, tc.uf.Key, en.Key)
				setKeyField(z, tc.uf.Key, en.Key)
				zw, zerr, zp := EncodeFresh(z)
				cw, cerr, cp := EncodeFresh(c)
				r.Evals(1)
				if zp == nil && ((cp != nil) || (zerr == nil) != (cerr == nil) || (zerr == nil && !bytes.Equal(zw, cw))) {
					d := det(firstDiffPlain(cw, zw))
					d["constructor_result_error"], d["zero_value_error"], d["constructor_result_panic"] = fmt.Sprint(cerr), fmt.Sprint(zerr), fmt.Sprint(cp)
					d["body_in_constructor_result_after_encode"] = dynType(reflect.ValueOf(c).Elem().FieldByName(tc.uf.Name))
					r.Violate(fmt.Sprintf("C12/constructor-result-encodes-differently-from-zero-value/%s/%v", tb.QName, en.Key), "C12/constructor-result/"+tb.QName, d)
					continue
				}
				lf["registered:constructor-result≡zero-value"]++
			}
		}
		acc.merge(lf)
	})
	// ---------------- unregistered keys: factory sweeps
	probe := func(tc *tableCtx, key any, deep bool) {
		tb := tc.tb
		atomic.AddInt64(&probes, 1)
		_, reg := tb.ByKey[key]
		var got codec.BinaryCodec
		err, fp := mon.Call(func() error {
			var e2 error
			got, e2 = tc.factory(key)
			return e2
		})
		if fp != nil {
			r.Violate(fmt.Sprintf("C12/factory-panics/%s", tb.QName), "C12/factory-panics/"+tb.QName, map[string]any{"type": tc.owner.QName, "table": tb.QName, "key": fmtKey(key), "panic": fp.Value, "stack": fp.Stack})
			return
		}
		if reg {
			return // judged above
		}
		if err == nil || got != nil {
			r.Violate(fmt.Sprintf("C12/factory-answers-unregistered-key/%s/%v", tb.QName, fmtKey(key)), "C12/factory-answers-unregistered-key/"+tb.QName, map[string]any{"type": tc.owner.QName, "table": tb.QName, "key": fmtKey(key), "got": fmt.Sprintf("%T", got)})
			return
		}
		if !deep {
			return
		}
		owner := tc.owner
		// decode of an image carrying the key
		g := e.Gen(&gen.Opts{}, tb.QName, "unreg", fmtKey(key))
		v := g.Value(owner)
		setKeyField(v, tc.uf.Key, key)
		img, rerr := e.C.Encode(owner, v) // body of some registered member, key overwritten
		if rerr == nil {
			// only keys that survive the wire form of the key field unchanged are meaningful for Decode
			if _, _, _, derr2 := e.C.Decode(owner, img, false); derr2 == ref.ErrUnknownKey {
				d := e.C.New[owner.QName]()
				derr, p := LibDecode(d, bytes.NewBuffer(append([]byte(nil), img...)))
				r.Evals(1)
				body := reflect.ValueOf(d).Elem().FieldByName(tc.uf.Name)
				if p != nil || derr == nil || !body.IsNil() {
					r.Violate(fmt.Sprintf("C12/decoder-accepts-unregistered-key/%s", tb.QName), "C12/decoder-accepts-unregistered-key/"+tb.QName, map[string]any{"type": owner.QName, "table": tb.QName, "key": fmtKey(key), "error": fmt.Sprint(derr), "panic": fmt.Sprint(p), "body_after": fmt.Sprint(!body.IsNil()), "image": val.Hex(img, 120)})
				}
				acc.merge(map[string]int{"unregistered:decode-rejected": 1})
				// the same unknown-key image followed by a perfectly valid message of the owner type: still an error,
				// the decoder must not resynchronise on the next message
				if vimg, verr := e.C.Encode(owner, g.Value(owner)); verr == nil {
					d2 := e.C.New[owner.QName]()
					both := append(append([]byte(nil), img...), vimg...)
					derr2, p2 := LibDecode(d2, bytes.NewBuffer(both))
					r.Evals(1)
					if p2 != nil || derr2 == nil {
						r.Violate(fmt.Sprintf("C12/decoder-skips-unregistered-key-when-more-follows/%s", tb.QName), "C12/decoder-skips-unregistered-key-when-more-follows/"+tb.QName, map[string]any{"type": owner.QName, "table": tb.QName, "key": fmtKey(key), "panic": fmt.Sprint(p2), "buffer": "image with the unregistered key, then a valid " + owner.QName})
					}
				}
				// ... and cut right where the body would start (nothing follows the fixed part)
				if _, used, toks, _ := e.C.Decode(owner, img, true); used > 0 && len(toks) > 0 {
					cut := toks[len(toks)-1].Off + toks[len(toks)-1].W
					d3 := e.C.New[owner.QName]()
					derr3, p3 := LibDecode(d3, bytes.NewBuffer(append([]byte(nil), img[:cut]...)))
					r.Evals(1)
					if p3 != nil || derr3 == nil {
						r.Violate(fmt.Sprintf("C12/decoder-accepts-unregistered-key-at-end-of-input/%s", tb.QName), "C12/decoder-accepts-unregistered-key-at-end-of-input/"+tb.QName, map[string]any{"type": owner.QName, "table": tb.QName, "key": fmtKey(key), "panic": fmt.Sprint(p3), "image": val.Hex(img[:cut], 160)})
					}
				}
			}
		}
		// encode with nil body
		m := g.Value(owner)
		setKeyField(m, tc.uf.Key, key)
		fv := reflect.ValueOf(m).Elem().FieldByName(tc.uf.Name)
		fv.Set(reflect.Zero(fv.Type()))
		_, eerr, p := EncodeFresh(m)
		r.Evals(1)
		if p != nil {
			r.Violate("C12/encode-unregistered-panic/"+tb.QName, "C12/encode-unregistered-panic/"+tb.QName, map[string]any{"type": owner.QName, "key": fmtKey(key), "panic": p.Value})
		} else if tc.uf.Fill && (eerr == nil || !fv.IsNil()) {
			r.Violate("C12/encoder-fills-unregistered-key/"+tb.QName, "C12/encoder-fills-unregistered-key/"+tb.QName, map[string]any{"type": owner.QName, "table": tb.QName, "key": fmtKey(key), "filled_with": dynType(fv)})
		} else if !tc.uf.Fill && (eerr != nil || !fv.IsNil()) {
			r.Violate("C12/non-filling-frame-guessed-a-body/"+tb.QName, "C12/non-filling-frame-guessed-a-body/"+tb.QName, map[string]any{"type": owner.QName, "key": fmtKey(key), "error": fmt.Sprint(eerr)})
		} else {
			acc.merge(map[string]int{"unregistered:encode-nil-body-ok": 1})
		}
		// an Encode of a message that carries the unregistered key WITH a body of the caller's own choosing (encoders
		// just write what they are given) must not teach the table that key: the factory still refuses afterwards
		{
			m3 := (&gen.Gen{S: e.S, C: e.C, R: g.R, O: &gen.Opts{NoNilBody: true}}).Value(owner)
			setKeyField(m3, tc.uf.Key, key)
			EncodeFresh(m3)
			m4, ferr, fp2 := func() (m codec.BinaryCodec, err error, p *mon.Panic) {
				err, p = mon.Call(func() error { var e2 error; m, e2 = tc.factory(key); return e2 })
				return
			}()
			r.Evals(1)
			if fp2 == nil && (ferr == nil || m4 != nil) {
				r.Violate("C12/encode-registers-unregistered-key/"+tb.QName, "C12/encode-registers-unregistered-key/"+tb.QName, map[string]any{"type": owner.QName, "table": tb.QName, "key": fmtKey(key), "factory_answer_after_encode": fmt.Sprintf("%T", m4), "observed": "after one Encode of a message carrying this unregistered key together with a body, the factory answers for the key"})
			}
		}
		// ... and the same message travelling inside its frame: the frame's Encode must report the refusal too
		if tc.uf.Fill && p == nil {
			if fr := frameCarrying(e, owner); fr != nil {
				m2 := g.Value(owner)
				setKeyField(m2, tc.uf.Key, key)
				fv2 := reflect.ValueOf(m2).Elem().FieldByName(tc.uf.Name)
				fv2.Set(reflect.Zero(fv2.Type()))
				frame := (&gen.Gen{S: e.S, C: e.C, R: g.R, O: &gen.Opts{NoNilBody: true, ForceKey: map[string]any{fr.tb.QName: fr.key}}}).Value(fr.t)
				reflect.ValueOf(frame).Elem().FieldByName(fr.union).Set(reflect.ValueOf(m2))
				_, ferr, fp := EncodeFresh(frame)
				r.Evals(1)
				if fp == nil && ferr == nil {
					r.Violate("C12/frame-hides-refusal-of-unregistered-key/"+tb.QName, "C12/frame-hides-refusal-of-unregistered-key/"+tb.QName, map[string]any{"frame": fr.t.QName, "body": owner.QName, "table": tb.QName, "key": fmtKey(key), "observed": "the body cannot be completed (no extension is registered for the key) yet the enclosing frame's Encode returned nil"})
				} else {
					acc.merge(map[string]int{"unregistered:frame-reports-body-refusal": 1})
				}
			}
		}
	}
	type chunk struct {
		tc     *tableCtx
		lo, hi uint64
		mode   string
	}
	var chunks []chunk
	exhaustU32 := uint64(1) << uint(e.N(20, 26))
	for _, tc := range tcs {
		switch tc.tb.KeyKind {
		case "u16":
			chunks = append(chunks, chunk{tc, 0, 1 << 16, "range"})
		case "u32":
			for lo := uint64(0); lo < exhaustU32; lo += 1 << 18 {
				chunks = append(chunks, chunk{tc, lo, lo + 1<<18, "range"})
			}
			chunks = append(chunks, chunk{tc, 0, 0, "neighbours"}, chunk{tc, 0, uint64(e.N(100000, 50000000)), "random"})
		case "str":
			chunks = append(chunks, chunk{tc, 0, 0, "str-small"}, chunk{tc, 0, 0, "str-edits"})
			if e.Thorough {
				for b0 := uint64(0); b0 < 256; b0 += 16 {
					chunks = append(chunks, chunk{tc, b0, b0 + 16, "str-all3"})
				}
			}
		}
	}
	exhaustive := map[string]string{}
	var exMu = make(chan struct{}, 1)
	exMu <- struct{}{}
	e.Par(len(chunks), func(ci int) {
		c := chunks[ci]
		tc := c.tc
		deepEvery := uint64(4099)
		switch c.mode {
		case "range":
			for k := c.lo; k < c.hi; k++ {
				probe(tc, k, k%deepEvery == 7)
			}
		case "neighbours":
			w := uint(32)
			for _, en := range tc.tb.Entries {
				k := en.Key.(uint64)
				for a := uint(0); a < w; a++ {
					probe(tc, k^(1<<a), a%5 == 0)
					for b := a + 1; b < w; b++ {
						probe(tc, k^(1<<a)^(1<<b), false)
					}
				}
				// decimal digit edits
				ds := []byte(strconv.FormatUint(k, 10))
				for p := range ds {
					for dg := byte('0'); dg <= '9'; dg++ {
						ed := append([]byte(nil), ds...)
						ed[p] = dg
						x, _ := strconv.ParseUint(string(ed), 10, 64)
						probe(tc, x, true)
					}
				}
				probe(tc, getIntRev(refInt(4, k, false)), true) // byte-swapped
				probe(tc, k<<16&0xFFFFFFFF, false)
				probe(tc, k+1, true)
				probe(tc, k-1, true)
			}
		case "random":
			rng := gen.NewRng(e.Seed, "C12", tc.tb.QName, "random")
			for i := uint64(0); i < c.hi; i++ {
				probe(tc, rng.U64()&0xFFFFFFFF, i%50021 == 0)
			}
		case "str-small":
			alpha := []byte("0123456789 \x00A\xff-+")
			var rec func(prefix []byte, depth int)
			n := 0
			rec = func(prefix []byte, depth int) {
				n++
				probe(tc, string(prefix), n%97 == 0)
				if depth == 3 {
					return
				}
				for _, ch := range alpha {
					rec(append(append([]byte(nil), prefix...), ch), depth+1)
				}
			}
			rec(nil, 0)
		case "str-edits":
			for _, en := range tc.tb.Entries {
				k := []byte(en.Key.(string))
				for p := range k {
					for b := 0; b < 256; b++ {
						ed := append([]byte(nil), k...)
						ed[p] = byte(b)
						probe(tc, string(ed), b%16 == 0)
					}
				}
				probe(tc, string(k)+" ", true)
				probe(tc, " "+string(k), true)
				probe(tc, string(k[1:]), true)                        // leading character dropped ("010" -> "10")
				probe(tc, strings.TrimLeft(string(k), "0"), true)     // leading zeros dropped
				probe(tc, strings.TrimLeft(string(k), "0")+" ", true) // … and blank-filled to the field width
				probe(tc, " "+string(k[1:]), true)
				probe(tc, strings.ToLower(string(k)), len(k) > 0 && k[0] > '9')
				probe(tc, string(k[:len(k)-1]), true)
				probe(tc, string(k)+"0", true)
			}
		case "str-all3":
			if c.lo == 0 {
				probe(tc, "", true)
				for a := 0; a < 256; a++ {
					probe(tc, string([]byte{byte(a)}), false)
					for b := 0; b < 256; b++ {
						probe(tc, string([]byte{byte(a), byte(b)}), false)
					}
				}
			}
			var k [3]byte
			for a := c.lo; a < c.hi; a++ {
				k[0] = byte(a)
				for b := 0; b < 256; b++ {
					k[1] = byte(b)
					for cc := 0; cc < 256; cc++ {
						k[2] = byte(cc)
						probe(tc, string(k[:]), false)
					}
				}
			}
		}
		<-exMu
		switch c.mode {
		case "range":
			if tc.tb.KeyKind == "u16" {
				exhaustive[tc.tb.QName] = "all 65536 keys"
			} else {
				exhaustive[tc.tb.QName] = fmt.Sprintf("all keys < 2^%d", e.N(20, 26))
			}
		case "str-all3":
			exhaustive[tc.tb.QName] = "all byte strings of length <= 3"
		}
		exMu <- struct{}{}
	})
	runVariantChild(e, "reregistration-child", "rereg", "run_time_re_registration_in_a_child_process", "run-time re-registration")
	r.Evals(probes)
	r.DistinctAdd(probes) // every probe is a distinct (table,key) pair except the handful of overlaps between sweeps
	r.Set("tables", len(tcs))
	r.Set("registered_keys", e.totalKeys())
	r.Set("factory_probes", probes)
	r.Set("exhaustively_enumerated_subspaces", exhaustive)
	r.Set("observations", acc.m)
	r.Sample(map[string]any{"table": "szse.NewOrderApplId", "registered": "\"010\" → Extend100101 (decode, encode-fill, factory)", "unregistered_examples": []string{"\"011\"", "\"01\"", "\"010 \"", "\"\\x00\\x00\\x00\""}})
	r.Sample(map[string]any{"table": "sse.SseBinaryMsgType", "registered": "33 → Heartbeat", "unregistered_examples": []uint64{34, 32 ^ 1<<7, 0x21000000}})
}

func fmtKey(k any) string {
	switch x := k.(type) {
	case string:
		return strconv.Quote(x)
	case uint64:
		return strconv.FormatUint(x, 10)
	}
	return fmt.Sprint(k)
}
