// Package gen holds the workload generators of DESIGN §2.3.
package gen

import (
	"fmt"
	"math"
	"reflect"
	"strings"
	"unsafe"

	"verif/internal/ref"
	"verif/internal/schema"
)

// Opts steers the value generator.
type Opts struct {
	Arbitrary bool           // leave the canonical (round-trip) domain: over-long text, nil parts, odd unions
	Lens      []int          // list length choices
	StrLens   []int          // prefixed-text length choices
	ForceKey  map[string]any // table QName -> key (uint64 | string) to use for that union
	NoNilBody bool           // arbitrary mode: never produce nil / mismatched bodies
	Feat      map[string]int // feature counters (what the generated values exercised)
}

var DefaultLens = []int{0, 0, 1, 1, 1, 2, 2, 3, 3, 17, 17, 40, 130, 300}
var DefaultStrLens = []int{0, 1, 2, 5, 17, 64, 255, 256, 1000}

type Gen struct {
	S *schema.Schema
	C *ref.Codec
	R *Rng
	O *Opts

	inElem int // >0 while generating the elements of an object list: nested lists stay short there

	// Mem, when set, is shared by the cases of one type: a new prefixed text sometimes is an earlier case's
	// text plus a suffix (values of consecutive messages are related: same account, longer order id …)
	Mem *[]string
}

func (g *Gen) feat(k string) {
	if g.O.Feat != nil {
		g.O.Feat[k]++
	}
}

func (g *Gen) lens() []int {
	if g.inElem > 0 {
		return nestedLens // lists inside the elements of a list stay short (65535 x 65535 is 4 G elements)
	}
	if len(g.O.Lens) > 0 {
		return g.O.Lens
	}
	return DefaultLens
}

var nestedLens = []int{0, 1, 2, 3}

// Value builds a message of type t.
func (g *Gen) Value(t *schema.Type) any {
	msg := g.C.New[t.QName]()
	g.fill(t, reflect.ValueOf(msg).Elem())
	return msg
}

func (g *Gen) fill(t *schema.Type, v reflect.Value) {
	// unions first decide their key so that the key field can be written consistently
	keys := map[string]any{} // key field name -> value
	type pend struct {
		f       *schema.Field
		bt      *schema.Type
		nilBody bool
	}
	var unions []pend
	for i := range t.Fields {
		f := &t.Fields[i]
		if f.Kind != "union" {
			continue
		}
		tb := g.S.Table(t.Pkg, f.Table)
		var key any
		if fk, ok := g.O.ForceKey[tb.QName]; ok {
			key = fk
		} else {
			key = tb.Entries[g.R.Intn(len(tb.Entries))].Key
		}
		bt := g.S.Lookup(t.Pkg, tb.ByKey[key])
		p := pend{f: f, bt: bt}
		if g.O.Arbitrary && !g.O.NoNilBody {
			switch g.R.Intn(10) {
			case 0: // nil body, registered key
				p.nilBody = true
				g.feat("union:nil-body-registered-key")
			case 1: // nil body, unregistered key
				p.nilBody = true
				key = g.unregisteredKey(tb)
				g.feat("union:nil-body-unregistered-key")
			case 2: // body of another member than the key says
				p.bt = g.S.Lookup(t.Pkg, tb.Entries[g.R.Intn(len(tb.Entries))].Type)
				g.feat("union:body-type-vs-key-mismatch")
			case 3: // unregistered key with a real body
				key = g.unregisteredKey(tb)
				g.feat("union:unregistered-key-with-body")
			}
		}
		keys[f.Key] = key
		unions = append(unions, p)
	}
	defer g.couple(t, v)
	for i := range t.Fields {
		f := &t.Fields[i]
		fv := v.FieldByName(f.Name)
		if key, ok := keys[f.Name]; ok {
			switch k := key.(type) {
			case uint64:
				fv.SetUint(k)
			case string:
				fv.SetString(k)
			}
			continue
		}
		switch f.Kind {
		case "union":
			for _, p := range unions {
				if p.f == f && !p.nilBody {
					body := g.C.New[p.bt.QName]()
					g.fill(p.bt, reflect.ValueOf(body).Elem())
					fv.Set(reflect.ValueOf(body))
				}
			}
		case "bodylen", "checksum":
			// stale caller-supplied value
			stale := []uint64{0, 4, 0xFFFFFFFF, g.R.U64()}
			x := stale[g.R.Intn(len(stale))]
			if fv.CanUint() {
				fv.SetUint(x & 0xFFFFFFFF)
			} else {
				fv.SetInt(int64(int32(x)))
			}
		default:
			g.field(t, f, fv)
		}
	}
}

// UnregKeyFor draws a key that is not registered in tb (canonical for the key field).
func (g *Gen) UnregKeyFor(tb *schema.Table) any { return g.unregisteredKey(tb) }

func (g *Gen) unregisteredKey(tb *schema.Table) any {
	for {
		var k any
		if tb.KeyKind == "str" {
			alpha := "0123456789 AZ"
			b := make([]byte, 3)
			for i := range b {
				b[i] = alpha[g.R.Intn(len(alpha))]
			}
			s := string(b)
			for len(s) > 0 && s[len(s)-1] == ' ' { // keep it canonical for the key field
				s = s[:len(s)-1]
			}
			k = s
		} else if tb.KeyKind == "u16" {
			k = g.R.U64() & 0xFFFF
		} else {
			if g.R.Bool() {
				k = g.R.U64() & 0xFFFFFFFF
			} else {
				k = g.R.U64() % 300000
			}
		}
		if _, reg := tb.ByKey[k]; !reg {
			return k
		}
	}
}

func (g *Gen) field(t *schema.Type, f *schema.Field, fv reflect.Value) {
	switch f.Kind {
	case "fixstr":
		fv.SetString(g.FixText(f.N, byte(f.Pad), f.Left))
	case "pstr":
		if g.Mem != nil && len(*g.Mem) > 0 && g.R.Chance(1, 3) {
			base := (*g.Mem)[g.R.Intn(len(*g.Mem))]
			fv.SetString(base + g.Text(1+g.R.Intn(4)))
			g.feat("coupled:text-extends-a-text-of-an-earlier-message")
			return
		}
		defer func() {
			if g.Mem != nil && fv.Len() >= 8 && fv.Len() <= 64 && len(*g.Mem) < 64 {
				*g.Mem = append(*g.Mem, fv.String())
			}
		}()
		if g.inElem > 0 {
			fv.SetString(g.Text(g.R.PickInt([]int{0, 1, 2, 5, 17})))
		} else {
			fv.SetString(g.Text(g.R.PickInt(g.strLens())))
		}
	case "list":
		n := g.R.PickInt(g.lens())
		g.feat(fmt.Sprintf("list-len:%s", lenClass(n)))
		sl := reflect.MakeSlice(fv.Type(), n, n)
		for i := 0; i < n; i++ {
			el := sl.Index(i)
			if schema.IsScalar(f.Elem.Kind) {
				SetScalarBits(el, f.Elem.Kind, g.ScalarBits(f.Elem.Kind))
			} else {
				g.field(t, f.Elem, el)
			}
		}
		if n == 0 && g.R.Bool() {
			fv.Set(reflect.Zero(fv.Type())) // nil list
			g.feat("list:nil")
		} else {
			fv.Set(sl)
		}
	case "objlist":
		n := g.R.PickInt(g.lens())
		g.feat(fmt.Sprintf("objlist-len:%s", lenClass(n)))
		et := g.S.Lookup(t.Pkg, f.Type)
		sl := reflect.MakeSlice(fv.Type(), n, n)
		g.inElem++
		for i := 0; i < n; i++ {
			el := reflect.ValueOf(g.C.New[et.QName]())
			g.fill(et, el.Elem())
			sl.Index(i).Set(el)
		}
		g.inElem--
		fv.Set(sl)
	case "struct":
		st := g.S.Lookup(t.Pkg, f.Type)
		if f.Value {
			g.fill(st, fv)
			return
		}
		if g.O.Arbitrary && g.R.Chance(1, 4) {
			g.feat("struct:nil-part")
			return
		}
		n := reflect.ValueOf(g.C.New[st.QName]())
		g.fill(st, n.Elem())
		fv.Set(n)
	default:
		SetScalarBits(fv, f.Kind, g.ScalarBits(f.Kind))
	}
}

func (g *Gen) strLens() []int {
	if len(g.O.StrLens) > 0 {
		return g.O.StrLens
	}
	return DefaultStrLens
}

func lenClass(n int) string {
	switch {
	case n == 0:
		return "0"
	case n == 1:
		return "1"
	case n < 16:
		return "2-15"
	case n < 256:
		return "16-255"
	case n < 65535:
		return "256-65534"
	case n == 65535:
		return "65535"
	}
	return ">65535"
}

// SetScalarBits stores a bit pattern into a numeric reflect value of the given schema kind.
func SetScalarBits(v reflect.Value, kind string, x uint64) {
	switch kind {
	case "i8":
		v.SetInt(int64(int8(x)))
	case "i16":
		v.SetInt(int64(int16(x)))
	case "i32":
		v.SetInt(int64(int32(x)))
	case "i64":
		v.SetInt(int64(x))
	case "u8":
		v.SetUint(x & 0xFF)
	case "u16":
		v.SetUint(x & 0xFFFF)
	case "u32":
		v.SetUint(x & 0xFFFFFFFF)
	case "u64":
		v.SetUint(x)
	case "f32":
		*(*uint32)(unsafe.Pointer(v.UnsafeAddr())) = uint32(x)
	case "f64":
		v.SetFloat(math.Float64frombits(x))
	}
}

// ScalarBits draws a boundary-biased bit pattern for a numeric kind.
func (g *Gen) ScalarBits(kind string) uint64 {
	w := uint(schema.Width(kind) * 8)
	mask := ^uint64(0)
	if w < 64 {
		mask = 1<<w - 1
	}
	if kind == "f32" || kind == "f64" {
		var expMask, fracMask, sign uint64
		if kind == "f32" {
			expMask, fracMask, sign = 0x7F800000, 0x007FFFFF, 0x80000000
		} else {
			expMask, fracMask, sign = 0x7FF0000000000000, 0x000FFFFFFFFFFFFF, 0x8000000000000000
		}
		quiet := (fracMask + 1) >> 1
		r := g.R.U64()
		switch g.R.Intn(9) {
		case 0:
			g.feat("float:+0")
			return 0
		case 1:
			g.feat("float:-0")
			return sign
		case 2:
			g.feat("float:inf")
			return expMask | (r & sign)
		case 3:
			g.feat("float:qNaN")
			return expMask | quiet | (r & (fracMask | sign))
		case 4:
			g.feat("float:sNaN")
			p := r & fracMask &^ quiet
			if p == 0 {
				p = 1
			}
			return expMask | p | (r & sign)
		case 5:
			g.feat("float:denormal")
			p := r & fracMask
			if p == 0 {
				p = 1
			}
			return p | (r & sign)
		}
		return r & mask
	}
	r := g.R.U64()
	switch g.R.Intn(10) {
	case 0:
		return 0
	case 1:
		return 1
	case 2:
		g.feat("int:all-ones")
		return mask
	case 3:
		g.feat("int:sign-bit-only")
		return 1 << (w - 1)
	case 4:
		g.feat("int:max-positive")
		return mask >> 1
	case 5:
		return r & 0xFF
	case 7:
		return r & 0xF // small numbers: what counts, lengths and enumerations usually hold
	case 6:
		g.feat("int:high-bit-set")
		return (r | 1<<(w-1)) & mask
	}
	return r & mask
}

var alphabet = []string{" ", "0", "\x00", "\x7f", "\x80", "\xff", "a", "b", "Z", "9", "é", "€", "\xc2", "\xe2\x82", "-", "."}

// Text returns n bytes drawn from the hostile alphabet (may cut a multi-byte sequence).
func (g *Gen) Text(n int) string {
	b := make([]byte, 0, n+4)
	mode := g.R.Intn(5)
	if mode == 4 && n > 1 {
		// a word followed by a run of blanks or NULs (what a sloppy "drop the filler" step would eat)
		k := 1 + g.R.Intn(n-1)
		fill := []byte{' ', 0, ' '}[g.R.Intn(3)]
		for len(b) < k {
			b = append(b, byte('a'+g.R.Intn(26)))
		}
		for len(b) < n {
			b = append(b, fill)
		}
		g.feat("text:word-then-blank-run")
		return string(b)
	}
	for len(b) < n {
		switch mode {
		case 0:
			b = append(b, byte('a'+g.R.Intn(26)))
		case 1:
			b = append(b, byte(g.R.U64()))
		default:
			b = append(b, alphabet[g.R.Intn(len(alphabet))]...)
		}
	}
	return string(b[:n])
}

// FixText draws a text for an N-byte field.  Canonical: length 0..N, not starting (left pad) /
// ending (right pad) with the pad byte, pad bytes welcome elsewhere.  Arbitrary: also over-long,
// pad-terminated and all-pad texts.
func (g *Gen) FixText(n int, pad byte, left bool) string {
	if g.O.Arbitrary {
		switch g.R.Intn(8) {
		case 0:
			g.feat("fixstr:over-long")
			return g.Text(n + 1 + g.R.Intn(8))
		case 1:
			g.feat("fixstr:pad-at-pad-side")
			s := []byte(g.Text(g.R.Intn(n + 1)))
			if len(s) > 0 {
				if left {
					s[0] = pad
				} else {
					s[len(s)-1] = pad
				}
			}
			return string(s)
		case 2:
			g.feat("fixstr:all-pad")
			s := make([]byte, g.R.Intn(n+1))
			for i := range s {
				s[i] = pad
			}
			return string(s)
		}
	}
	var l int
	switch g.R.Intn(6) {
	case 0:
		l = 0
		g.feat("fixstr:empty")
	case 1:
		l = 1
	case 2:
		l = n - 1
	case 3, 4:
		l = n
		g.feat("fixstr:full-width")
	default:
		l = g.R.Intn(n + 1)
	}
	if l < 0 {
		l = 0
	}
	if l > n {
		l = n
	}
	s := []byte(g.Text(l))
	if l > 0 {
		// sprinkle pad bytes in the interior / on the non-pad side
		if l > 1 && g.R.Bool() {
			s[g.R.Intn(l)] = pad
			g.feat("fixstr:interior-or-far-side-pad")
		}
		if l < n { // short text: must not begin/end with pad on the pad side
			edge := l - 1
			if left {
				edge = 0
			}
			if s[edge] == pad {
				s[edge] = nonPad(pad)
			}
		} else {
			// full-width text is emitted verbatim, but the reader still strips pad bytes on the
			// pad side, so canonical full-width text must not carry one there either
			edge := l - 1
			if left {
				edge = 0
			}
			if s[edge] == pad {
				s[edge] = nonPad(pad)
			}
		}
		if l < n {
			g.feat("fixstr:short")
		}
	}
	return string(s)
}

func nonPad(pad byte) byte {
	if pad == 'A' {
		return 'B'
	}
	return 'A'
}

// couple introduces the relations between fields that independent random values never have:
// an integer field named <X>Len / <X>Length next to a text field <X> is set near len(<X>), and a text
// field sometimes repeats the value of an earlier text field of the same message.
func (g *Gen) couple(t *schema.Type, v reflect.Value) {
	var prevText string
	havePrev := false
	for i := range t.Fields {
		f := &t.Fields[i]
		fv := v.FieldByName(f.Name)
		switch {
		case schema.IsScalar(f.Kind) && f.Kind[0] != 'f':
			for _, suf := range []string{"Len", "Length"} {
				if !strings.HasSuffix(f.Name, suf) {
					continue
				}
				tf := v.FieldByName(strings.TrimSuffix(f.Name, suf))
				if tf.IsValid() && tf.Kind() == reflect.String && g.R.Chance(1, 2) {
					n := tf.Len() + g.R.Intn(7) - 3
					if n < 0 {
						n = 0
					}
					SetScalarBits(fv, f.Kind, uint64(n))
					g.feat("coupled:length-field-near-text-length")
				}
			}
		case f.Kind == "fixstr" || f.Kind == "pstr":
			if havePrev && g.R.Chance(1, 6) {
				s := prevText
				if f.Kind == "fixstr" {
					if len(s) > f.N {
						s = s[:f.N]
					}
					// stay canonical: no pad byte on the pad side
					if len(s) > 0 && !g.O.Arbitrary {
						edge := len(s) - 1
						if f.Left {
							edge = 0
						}
						if s[edge] == byte(f.Pad) {
							break
						}
					}
				}
				if _, isKey := g.keyFields(t)[f.Name]; !isKey {
					fv.SetString(s)
					g.feat("coupled:text-repeats-earlier-field")
				}
			}
			prevText, havePrev = fv.String(), true
		case f.Kind == "struct":
			// a nested part often carries the same identifier as its parent (same field name): make them equal sometimes
			st := g.S.Lookup(t.Pkg, f.Type)
			nv := fv
			if !f.Value {
				if fv.IsNil() {
					break
				}
				nv = fv.Elem()
			}
			for j := range st.Fields {
				sf := &st.Fields[j]
				pv := v.FieldByName(sf.Name)
				if (sf.Kind == "fixstr" || sf.Kind == "pstr") && pv.IsValid() && pv.Kind() == reflect.String && g.R.Chance(1, 2) {
					s := pv.String()
					if sf.Kind == "fixstr" && len(s) > sf.N {
						s = s[:sf.N]
					}
					nv.FieldByName(sf.Name).SetString(s)
					g.feat("coupled:nested-part-repeats-parent-field-of-same-name")
				}
			}
		}
	}
}

func (g *Gen) keyFields(t *schema.Type) map[string]bool {
	m := map[string]bool{}
	for _, f := range t.Fields {
		if f.Kind == "union" {
			m[f.Key] = true
		}
	}
	return m
}
