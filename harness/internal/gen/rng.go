package gen

import "hash/fnv"

// Rng is a small deterministic PRNG (splitmix64); case i of type T of property P under
// seed S is a pure function of (S, P, T, i).
type Rng struct{ s uint64 }

func NewRng(seed int64, parts ...any) *Rng {
	h := fnv.New64a()
	var b [8]byte
	put := func(x uint64) {
		for i := range b {
			b[i] = byte(x >> (8 * i))
		}
		h.Write(b[:])
	}
	put(uint64(seed))
	for _, p := range parts {
		switch v := p.(type) {
		case string:
			h.Write([]byte(v))
			h.Write([]byte{0})
		case int:
			put(uint64(v))
		case uint64:
			put(v)
		case int64:
			put(uint64(v))
		}
	}
	return &Rng{s: h.Sum64() | 1}
}

func (r *Rng) U64() uint64 {
	r.s += 0x9E3779B97F4A7C15
	z := r.s
	z = (z ^ z>>30) * 0xBF58476D1CE4E5B9
	z = (z ^ z>>27) * 0x94D049BB133111EB
	return z ^ z>>31
}

func (r *Rng) Intn(n int) int {
	if n <= 0 {
		return 0
	}
	return int(r.U64() % uint64(n))
}

func (r *Rng) Bool() bool { return r.U64()&1 == 1 }

// Chance returns true with probability num/den.
func (r *Rng) Chance(num, den int) bool { return r.Intn(den) < num }

func (r *Rng) Bytes(n int) []byte {
	b := make([]byte, n)
	for i := 0; i < n; i += 8 {
		x := r.U64()
		for j := 0; j < 8 && i+j < n; j++ {
			b[i+j] = byte(x >> (8 * j))
		}
	}
	return b
}

func (r *Rng) PickInt(xs []int) int { return xs[r.Intn(len(xs))] }
