package gen

import (
	"verif/internal/ref"
	"verif/internal/schema"
)

// Wire builds a byte image of type t token by token from the pinned schema, without going
// through any encoder: fixed-text tokens are arbitrary bytes (all-pad, pad on both sides,
// interior NUL, non-UTF-8), numbers are boundary-biased bit patterns, counts are small,
// discriminators are registered keys rendered with the key field's own padding, computed
// length/checksum tokens are correct or garbage.  These are images the library's encoder can
// never produce but its decoder accepts.
func (g *Gen) Wire(t *schema.Type) []byte {
	var out []byte
	g.wireType(t, &out)
	return out
}

func putInt(out []byte, w int, x uint64, le bool) []byte {
	for i := 0; i < w; i++ {
		sh := uint(8 * i)
		if !le {
			sh = uint(8 * (w - 1 - i))
		}
		out = append(out, byte(x>>sh))
	}
	return out
}

func (g *Gen) wireType(t *schema.Type, out *[]byte) {
	start := len(*out)
	keys := map[string]any{}
	bodies := map[string]*schema.Type{}
	for i := range t.Fields {
		f := &t.Fields[i]
		if f.Kind != "union" {
			continue
		}
		tb := g.S.Table(t.Pkg, f.Table)
		var key any
		if fk, ok := g.O.ForceKey[tb.QName]; ok {
			key = fk
		} else {
			key = tb.Entries[g.R.Intn(len(tb.Entries))].Key
		}
		keys[f.Key] = key
		bodies[f.Name] = g.S.Lookup(t.Pkg, tb.ByKey[key])
	}
	lenOff, lenW, lenCorrect := -1, 0, false
	for i := range t.Fields {
		f := &t.Fields[i]
		if key, ok := keys[f.Name]; ok {
			switch k := key.(type) {
			case uint64:
				*out = putInt(*out, schema.Width(f.Kind), k, t.LE)
			case string:
				*out = append(*out, ref.FixWrite(k, f.N, byte(f.Pad), f.Left)...)
			}
			continue
		}
		switch f.Kind {
		case "bodylen":
			lenOff, lenW = len(*out), schema.Width(f.Prefix)
			lenCorrect = g.R.Bool()
			// an incorrect length word is random, or one of the values a decoder might treat specially: 0, 1, all-ones
			garbage := g.R.U64()
			switch g.R.Intn(4) {
			case 0:
				garbage = 0
				g.feat("wire:length-word-zero-with-a-body")
			case 1:
				garbage = []uint64{1, 4, ^uint64(0), 1 << 31}[g.R.Intn(4)]
			}
			*out = putInt(*out, lenW, garbage, t.LE)
		case "union":
			bs := len(*out)
			g.wireType(bodies[f.Name], out)
			if lenOff >= 0 && lenCorrect {
				copy((*out)[lenOff:], putInt(nil, lenW, uint64(len(*out)-bs), t.LE))
				g.feat("wire:length-already-correct")
			}
		case "checksum":
			w := schema.Width(f.Prefix)
			if g.R.Bool() && (lenOff < 0 || lenCorrect) {
				x, _ := ref.Checksum(f.Alg, (*out)[start:])
				*out = putInt(*out, w, x, t.LE)
				g.feat("wire:checksum-already-correct")
			} else {
				*out = putInt(*out, w, g.R.U64(), t.LE)
			}
		default:
			g.wireField(t, f, out)
		}
	}
}

func (g *Gen) wireFix(n int, pad byte, left bool) []byte {
	b := []byte(g.Text(n))
	switch g.R.Intn(9) {
	case 0:
		for i := range b {
			b[i] = pad
		}
		g.feat("wire:all-pad-text")
	case 1:
		if n > 0 {
			b[0], b[n-1] = pad, pad
			g.feat("wire:pad-on-both-sides")
		}
	case 2:
		if n > 1 {
			// pad on the side that is NOT stripped
			if left {
				b[n-1] = pad
			} else {
				b[0] = pad
			}
			g.feat("wire:pad-on-far-side")
		}
	case 3:
		if n > 2 {
			b[1+g.R.Intn(n-2)] = 0
			g.feat("wire:interior-NUL")
		}
	case 4:
		if n > 2 {
			b[1+g.R.Intn(n-2)] = ' '
			g.feat("wire:interior-space")
		}
	case 5, 6:
		// pad run on the pad side then text; the text byte next to the run is often a byte that
		// sloppy trimming would also eat (NUL, space, '0', 0xFF, tab)
		k := g.R.Intn(n + 1)
		for i := 0; i < k; i++ {
			if left {
				b[i] = pad
			} else {
				b[n-1-i] = pad
			}
		}
		g.feat("wire:pad-run")
		if k < n && g.R.Chance(2, 3) {
			edge := n - 1 - k
			if left {
				edge = k
			}
			c := []byte{0, ' ', '0', 0xFF, '\t', '\n'}[g.R.Intn(6)]
			if c != pad {
				b[edge] = c
				g.feat("wire:trim-bait-next-to-pad-run")
			}
		}
	}
	return b
}

func (g *Gen) wireField(t *schema.Type, f *schema.Field, out *[]byte) {
	le := t.LE
	switch f.Kind {
	case "fixstr":
		*out = append(*out, g.wireFix(f.N, byte(f.Pad), f.Left)...)
	case "pstr":
		n := g.R.PickInt([]int{0, 0, 1, 2, 7, 40})
		*out = putInt(*out, schema.Width(f.Prefix), uint64(n), le)
		*out = append(*out, g.Text(n)...)
	case "list":
		n := g.R.PickInt([]int{0, 1, 2, 3, 5})
		*out = putInt(*out, schema.Width(f.Prefix), uint64(n), le)
		for i := 0; i < n; i++ {
			if schema.IsScalar(f.Elem.Kind) {
				*out = putInt(*out, schema.Width(f.Elem.Kind), g.ScalarBits(f.Elem.Kind), le)
			} else {
				g.wireField(t, f.Elem, out)
			}
		}
	case "objlist":
		n := g.R.PickInt([]int{0, 1, 2, 3})
		*out = putInt(*out, schema.Width(f.Prefix), uint64(n), le)
		et := g.S.Lookup(t.Pkg, f.Type)
		for i := 0; i < n; i++ {
			g.wireType(et, out)
		}
	case "struct":
		g.wireType(g.S.Lookup(t.Pkg, f.Type), out)
	default:
		*out = putInt(*out, schema.Width(f.Kind), g.ScalarBits(f.Kind), le)
	}
}
