// vcheck runs one property monitor against the library compiled from /repo's working tree.
//
//	vcheck C07 [--tier quick|thorough] [--seed N] [--only pkg.Type]
//	vcheck selftest
//	vcheck replay <file>
package main

import (
	"encoding/json"
	"fmt"
	"os"
	"os/exec"
	"strconv"
	"syscall"

	"verif/internal/checks"
)

func main() {
	if len(os.Args) < 2 {
		fmt.Println("usage: vcheck <property|selftest|replay> ...")
		os.Exit(2)
	}
	cmd := os.Args[1]
	tier := os.Getenv("VERIF_TIER")
	if tier == "" {
		tier = "quick"
	}
	seed := int64(1)
	if s := os.Getenv("VERIF_SEED"); s != "" {
		if v, err := strconv.ParseInt(s, 10, 64); err == nil {
			seed = v
		}
	}
	only := ""
	var rest []string
	args := os.Args[2:]
	for i := 0; i < len(args); i++ {
		switch args[i] {
		case "--tier":
			i++
			tier = args[i]
		case "--seed":
			i++
			seed, _ = strconv.ParseInt(args[i], 10, 64)
		case "--only":
			i++
			only = args[i]
		default:
			rest = append(rest, args[i])
		}
	}
	switch cmd {
	case "selftest":
		os.Exit(checks.SelfTest(true))
	case "replay":
		if len(rest) < 1 {
			fmt.Println("usage: vcheck replay <file>")
			os.Exit(2)
		}
		b, err := os.ReadFile(rest[0])
		if err != nil {
			fmt.Println(err)
			os.Exit(2)
		}
		var rec struct {
			Rerun  []string       `json:"rerun"`
			Detail map[string]any `json:"detail"`
			Class  string         `json:"class"`
		}
		if err := json.Unmarshal(b, &rec); err != nil || len(rec.Rerun) == 0 {
			fmt.Println("bad replay file:", err)
			os.Exit(2)
		}
		fmt.Printf("replaying class %s: vcheck %v\nrecorded detail:\n", rec.Class, rec.Rerun)
		d, _ := json.MarshalIndent(rec.Detail, "  ", " ")
		fmt.Println("  " + string(d))
		c := exec.Command(os.Args[0], rec.Rerun...)
		c.Stdout, c.Stderr = os.Stdout, os.Stderr
		if err := c.Run(); err != nil {
			if ee, ok := err.(*exec.ExitError); ok {
				os.Exit(ee.ExitCode())
			}
			os.Exit(2)
		}
		return
	}
	f, ok := checks.Registry[cmd]
	if !ok {
		fmt.Println("unknown property", cmd)
		os.Exit(2)
	}
	if tier != "quick" && tier != "thorough" {
		fmt.Println("bad tier", tier)
		os.Exit(2)
	}
	// The monitor process itself is memory-limited (the sandbox has no limit of its own): should the
	// library regress on C10 while another in-process monitor feeds it mutated images, the process dies
	// at once with "fatal error: out of memory" (exit 2, inconclusive) instead of eating the machine.
	if !raceBuild && os.Getenv("VERIF_NO_RLIMIT") == "" && os.Getenv("VERIF_CHILD") == "" {
		lim := uint64(24) << 30
		syscall.Setrlimit(syscall.RLIMIT_AS, &syscall.Rlimit{Cur: lim, Max: lim})
	}
	if code := checks.SelfTest(false); code != 0 {
		fmt.Printf("INCONCLUSIVE property=%s oracle self-test failed\n", cmd)
		os.Exit(2)
	}
	// In-process monitors shard their case lists over a worker pool.  The properties they decide
	// are about single calls, so a refuting observation made while other workers were running is
	// re-established with one worker before it is reported: a defect that needs concurrency to
	// manifest is C19/C20's business and must not be blamed on a sequential property.
	inProcess := map[string]bool{"C01": true, "C02": true, "C03": true, "C04": true, "C05": true, "C06": true, "C07": true, "C08": true,
		"C11": true, "C12": true, "C13": true, "C14": true, "C15": true, "C16": true, "C18": true}
	if inProcess[cmd] && len(rest) == 1 && rest[0] == "sharded-pass" {
		// the sharded pass, in a process of its own (see below): exit 0 = held (evidence written), 3 = refuting
		// observations were made and have to be re-established with one worker, 2 = inconclusive
		e := checks.NewEnv(cmd, tier, seed, only)
		e.R.Quiet = true
		f(e)
		if e.R.Violations() == 0 {
			e.R.Quiet = false
			os.Exit(e.R.Finish())
		}
		fmt.Printf("%s: %d refuting observations in the sharded pass\n", cmd, e.R.Violations())
		os.Exit(3)
	}
	if inProcess[cmd] && len(rest) == 0 && os.Getenv("VERIF_CHILD") == "" {
		// The sharded pass runs in a child process: a library change that makes concurrent calls abort the runtime
		// ("fatal error: concurrent map writes" cannot be recovered) must not take the verdict with it - the
		// single-worker run below still decides the sequential property.
		args := []string{cmd, "--tier", tier, "--seed", fmt.Sprint(seed)}
		if only != "" {
			args = append(args, "--only", only)
		}
		c := exec.Command(os.Args[0], append(args, "sharded-pass")...)
		c.Stdout, c.Stderr = os.Stdout, os.Stderr
		err := c.Run()
		code := 0
		if err != nil {
			code = -1
			if ee, ok := err.(*exec.ExitError); ok {
				code = ee.ExitCode()
			}
		}
		if code == 0 {
			os.Exit(0)
		}
		why := "the sharded (16-worker) pass made refuting observations"
		if code != 3 {
			why = fmt.Sprintf("the sharded (16-worker) pass did not complete (exit %d)", code)
		}
		fmt.Printf("%s: %s; deciding with a single worker\n", cmd, why)
		e2 := checks.NewEnv(cmd, tier, seed, only)
		e2.Workers = 1
		e2.R.Set("note", why+"; this evidence is from the single-worker run that decides")
		f(e2)
		os.Exit(e2.R.Finish())
	}
	e := checks.NewEnv(cmd, tier, seed, only)
	e.Args = rest
	f(e)
	os.Exit(e.R.Finish())
}
