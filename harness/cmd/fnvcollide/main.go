// fnvcollide is a one-shot tool (provenance only, no registered check runs it): it finds pairs of
// 16-character texts over the alphabet A..P with equal FNV-1a-64 hash, by a parallel distinguished-point
// (van Oorschot-Wiener) search.  The pairs it printed are kept as data in internal/checks/collisions.go and
// are re-verified at run time.
package main

import (
	"fmt"
	"math/rand"
	"os"
	"strconv"
	"sync"
)

func enc(x uint64) [16]byte {
	var b [16]byte
	for i := 0; i < 16; i++ {
		b[i] = 'A' + byte(x>>(4*uint(i))&15)
	}
	return b
}

func f(x uint64) uint64 {
	b := enc(x)
	h := uint64(14695981039346656037)
	for _, c := range b {
		h = (h ^ uint64(c)) * 1099511628211
	}
	return h
}

type trail struct {
	start uint64
	n     int
}

func main() {
	want := 3
	if len(os.Args) > 1 {
		want, _ = strconv.Atoi(os.Args[1])
	}
	const dpMask = 1<<22 - 1
	var mu sync.Mutex
	dps := map[uint64]trail{}
	found := 0
	done := make(chan struct{})
	var once sync.Once
	for w := 0; w < 16; w++ {
		go func(w int) {
			rng := rand.New(rand.NewSource(int64(w)*7919 + 1))
			for {
				select {
				case <-done:
					return
				default:
				}
				start := rng.Uint64()
				x, n := start, 0
				for n < 1<<26 {
					x = f(x)
					n++
					if x&dpMask == 0 {
						break
					}
				}
				if x&dpMask != 0 {
					continue
				}
				mu.Lock()
				other, ok := dps[x]
				if !ok {
					dps[x] = trail{start, n}
					mu.Unlock()
					continue
				}
				mu.Unlock()
				if other.start == start {
					continue
				}
				// walk both trails to the merge point
				a, na, b, nb := start, n, other.start, other.n
				for na > nb {
					a = f(a)
					na--
				}
				for nb > na {
					b = f(b)
					nb--
				}
				if a == b {
					continue // one trail is a suffix of the other
				}
				for f(a) != f(b) {
					a, b = f(a), f(b)
				}
				sa, sb := enc(a), enc(b)
				mu.Lock()
				fmt.Printf("{%q, %q, \"FNV-1a-64\"}, // both %#016x\n", string(sa[:]), string(sb[:]), f(a))
				found++
				if found >= want {
					once.Do(func() { close(done) })
				}
				mu.Unlock()
			}
		}(w)
	}
	<-done
}
