// schemagen is the one-shot extractor that PRODUCED the pinned schema files
// under /verif/schema from the pinned commit of fin-proto-go.  It is kept as
// provenance only: no registered check runs it, and the schema files are
// frozen data (see /verif/schema/PROVENANCE.md).
//
// It reads the Encode bodies (pass 1) and, independently, the Decode bodies
// (pass 2) of every generated codec, and refuses to write anything unless the
// two renderings agree field by field.
package main

import (
	"encoding/json"
	"fmt"
	"go/ast"
	"go/parser"
	"go/token"
	"os"
	"path/filepath"
	"sort"
	"strconv"
	"strings"
)

type Field struct {
	Name   string `json:"name"`             // Go struct field name
	Kind   string `json:"kind"`             // i8..u64,f32,f64,fixstr,pstr,list,objlist,struct,union,bodylen,checksum
	N      int    `json:"n,omitempty"`      // fixstr width
	Pad    int    `json:"pad"`              // fixstr pad byte
	Left   bool   `json:"left,omitempty"`   // fixstr pad side
	Prefix string `json:"prefix,omitempty"` // u8/u16/u32/u64 (pstr, list, objlist)
	Elem   *Field `json:"elem,omitempty"`   // list element (scalar, fixstr, pstr)
	Type   string `json:"type,omitempty"`   // struct / objlist element type
	Key    string `json:"key,omitempty"`    // union: discriminator field
	Table  string `json:"table,omitempty"`  // union: table name
	Fill   bool   `json:"fill,omitempty"`   // union: encoder fills a nil body from the table
	Opt    bool   `json:"opt,omitempty"`    // union: nil body encodes as nothing
	Alg    string `json:"alg,omitempty"`    // checksum algorithm name
	Value  bool   `json:"value,omitempty"`  // struct held by value (hand-written)
}

type Type struct {
	Name    string  `json:"name"`
	Fields  []Field `json:"fields"`
	Hand    bool    `json:"handwritten,omitempty"`
	Endian  string  `json:"endian,omitempty"`  // only for hand-written types that differ from the module
	NoCodec bool    `json:"nocodec,omitempty"` // Encode does not return error (SubOrder)
}

type Entry struct {
	Key  any    `json:"key"`
	Type string `json:"type"`
}

type Table struct {
	Name    string  `json:"name"`
	KeyKind string  `json:"keykind"`
	Owner   string  `json:"owner"`
	Entries []Entry `json:"entries"`
}

type Module struct {
	Module  string  `json:"module"`
	Dir     string  `json:"dir"`
	GoPkg   string  `json:"gopkg"`
	Endian  string  `json:"endian"`
	Version string  `json:"version"`
	Types   []Type  `json:"types"`
	Tables  []Table `json:"tables"`
}

var mods = []struct{ name, dir, endian, version string }{
	{"sse", "sse-bin", "big", "sse_bin_v0.57"},
	{"szse", "szse-bin", "big", "szse_bin_v1.29"},
	{"bjse", "bjse-trade-bin", "little", "bse_trade_bin_v0.9"},
	{"risk", "risk-bin", "big", "risk_v0.1.0"},
	{"sample", "sample-bin", "little", "sample"},
}

func die(f string, a ...any) { fmt.Fprintf(os.Stderr, f+"\n", a...); os.Exit(1) }

func exprStr(e ast.Expr) string {
	switch x := e.(type) {
	case *ast.Ident:
		return x.Name
	case *ast.SelectorExpr:
		return exprStr(x.X) + "." + x.Sel.Name
	case *ast.StarExpr:
		return "*" + exprStr(x.X)
	case *ast.ArrayType:
		return "[]" + exprStr(x.Elt)
	case *ast.BasicLit:
		return x.Value
	case *ast.IndexExpr:
		return exprStr(x.X) + "[" + exprStr(x.Index) + "]"
	case *ast.IndexListExpr:
		s := []string{}
		for _, i := range x.Indices {
			s = append(s, exprStr(i))
		}
		return exprStr(x.X) + "[" + strings.Join(s, ",") + "]"
	}
	return fmt.Sprintf("?%T", e)
}

var scalarKind = map[string]string{"int8": "i8", "int16": "i16", "int32": "i32", "int64": "i64",
	"uint8": "u8", "byte": "u8", "uint16": "u16", "uint32": "u32", "uint64": "u64", "float32": "f32", "float64": "f64"}

// call describes one codec.X[...](...) call
type call struct {
	fn    string   // e.g. WriteBasicTypeLE
	targs []string // explicit type args
	args  []ast.Expr
}

func asCodecCall(e ast.Expr) *call {
	ce, ok := e.(*ast.CallExpr)
	if !ok {
		return nil
	}
	fun := ce.Fun
	var targs []string
	switch x := fun.(type) {
	case *ast.IndexExpr:
		targs = []string{exprStr(x.Index)}
		fun = x.X
	case *ast.IndexListExpr:
		for _, i := range x.Indices {
			targs = append(targs, exprStr(i))
		}
		fun = x.X
	}
	se, ok := fun.(*ast.SelectorExpr)
	if !ok {
		return nil
	}
	if id, ok := se.X.(*ast.Ident); !ok || id.Name != "codec" {
		return nil
	}
	return &call{se.Sel.Name, targs, ce.Args}
}

func charLit(e ast.Expr) int {
	bl, ok := e.(*ast.BasicLit)
	if !ok || bl.Kind != token.CHAR {
		die("pad not a char literal: %s", exprStr(e))
	}
	r, _, _, err := strconv.UnquoteChar(bl.Value[1:len(bl.Value)-1], '\'')
	if err != nil {
		die("bad char %s", bl.Value)
	}
	return int(r)
}
func intLit(e ast.Expr) int {
	bl, ok := e.(*ast.BasicLit)
	if !ok {
		die("not int literal %s", exprStr(e))
	}
	n, err := strconv.Atoi(bl.Value)
	if err != nil {
		die("bad int")
	}
	return n
}
func boolLit(e ast.Expr) bool { return exprStr(e) == "true" }

type ctx struct {
	structs map[string]map[string]string // type -> field -> go type string
	endian  string
	le      map[string]int // statistics: LE / BE call counts
}

func (c *ctx) noteEndian(fn string) {
	if strings.HasSuffix(fn, "LE") {
		c.le["LE"]++
	} else {
		c.le["BE"]++
	}
}

// encode-side: field from a Write call whose value arg is p.<Field>
func (c *ctx) fieldFromWrite(tn string, cl *call) (Field, bool) {
	base := strings.TrimSuffix(cl.fn, "LE")
	fname := ""
	if len(cl.args) >= 2 {
		if se, ok := cl.args[1].(*ast.SelectorExpr); ok {
			fname = se.Sel.Name
		}
	}
	gt := c.structs[tn][fname]
	pfx := func(i int) string { return scalarKind[cl.targs[i]] }
	switch base {
	case "WriteBasicType":
		if fname == "" {
			return Field{}, false // placeholder write, handled by frame logic
		}
		c.noteEndian(cl.fn)
		return Field{Name: fname, Kind: scalarKind[gt]}, true
	case "WriteBasicTypeList":
		c.noteEndian(cl.fn)
		return Field{Name: fname, Kind: "list", Prefix: pfx(0), Elem: &Field{Kind: scalarKind[strings.TrimPrefix(gt, "[]")]}}, true
	case "WriteFixedString":
		return Field{Name: fname, Kind: "fixstr", N: intLit(cl.args[2]), Pad: ' '}, true
	case "WriteFixedStringWithPadding":
		return Field{Name: fname, Kind: "fixstr", N: intLit(cl.args[2]), Pad: charLit(cl.args[3]), Left: boolLit(cl.args[4])}, true
	case "WriteFixedStringList":
		c.noteEndian(cl.fn)
		return Field{Name: fname, Kind: "list", Prefix: pfx(0), Elem: &Field{Kind: "fixstr", N: intLit(cl.args[2]), Pad: ' '}}, true
	case "WriteFixedStringListWithPadding":
		c.noteEndian(cl.fn)
		return Field{Name: fname, Kind: "list", Prefix: pfx(0), Elem: &Field{Kind: "fixstr", N: intLit(cl.args[2]), Pad: charLit(cl.args[3]), Left: boolLit(cl.args[4])}}, true
	case "WriteString":
		c.noteEndian(cl.fn)
		return Field{Name: fname, Kind: "pstr", Prefix: pfx(0)}, true
	case "WriteStringList":
		c.noteEndian(cl.fn)
		return Field{Name: fname, Kind: "list", Prefix: pfx(0), Elem: &Field{Kind: "pstr", Prefix: pfx(1)}}, true
	case "WriteObjectList":
		c.noteEndian(cl.fn)
		return Field{Name: fname, Kind: "objlist", Prefix: pfx(0), Type: strings.TrimPrefix(gt, "[]*")}, true
	}
	die("%s: unknown writer %s", tn, cl.fn)
	return Field{}, false
}

// decode-side: field from a Read call; name is supplied by the caller
func (c *ctx) fieldFromRead(tn, fname string, cl *call) Field {
	base := strings.TrimSuffix(cl.fn, "LE")
	k := func(i int) string { return scalarKind[cl.targs[i]] }
	switch base {
	case "ReadBasicType":
		return Field{Name: fname, Kind: k(0)}
	case "ReadBasicTypeList":
		return Field{Name: fname, Kind: "list", Prefix: k(0), Elem: &Field{Kind: k(1)}}
	case "ReadFixedString":
		return Field{Name: fname, Kind: "fixstr", N: intLit(cl.args[1]), Pad: ' '}
	case "ReadFixedStringTrimPadding":
		return Field{Name: fname, Kind: "fixstr", N: intLit(cl.args[1]), Pad: charLit(cl.args[2]), Left: boolLit(cl.args[3])}
	case "ReadFixedStringList":
		return Field{Name: fname, Kind: "list", Prefix: k(0), Elem: &Field{Kind: "fixstr", N: intLit(cl.args[1]), Pad: ' '}}
	case "ReadFixedStringListTrimPadding":
		return Field{Name: fname, Kind: "list", Prefix: k(0), Elem: &Field{Kind: "fixstr", N: intLit(cl.args[1]), Pad: charLit(cl.args[2]), Left: boolLit(cl.args[3])}}
	case "ReadString":
		return Field{Name: fname, Kind: "pstr", Prefix: k(0)}
	case "ReadStringList":
		return Field{Name: fname, Kind: "list", Prefix: k(0), Elem: &Field{Kind: "pstr", Prefix: k(1)}}
	case "ReadObjectList":
		// element type from the factory literal: func() *T { return &T{} }
		fl := cl.args[1].(*ast.FuncLit)
		rt := exprStr(fl.Type.Results.List[0].Type)
		return Field{Name: fname, Kind: "objlist", Prefix: k(0), Type: strings.TrimPrefix(rt, "*")}
	}
	die("%s: unknown reader %s", tn, cl.fn)
	return Field{}
}

// find the first codec call anywhere inside a statement's init/cond
func findCodecCall(n ast.Node) *call {
	var res *call
	ast.Inspect(n, func(x ast.Node) bool {
		if res != nil {
			return false
		}
		if e, ok := x.(ast.Expr); ok {
			if cl := asCodecCall(e); cl != nil {
				res = cl
				return false
			}
		}
		return true
	})
	return res
}

// method call p.X.Encode(buf) / p.X.Decode(buf) inside a node -> X
func findMethodOnField(n ast.Node, method string) string {
	res := ""
	ast.Inspect(n, func(x ast.Node) bool {
		ce, ok := x.(*ast.CallExpr)
		if !ok {
			return true
		}
		se, ok := ce.Fun.(*ast.SelectorExpr)
		if !ok || se.Sel.Name != method {
			return true
		}
		if inner, ok := se.X.(*ast.SelectorExpr); ok {
			if id, ok := inner.X.(*ast.Ident); ok && (id.Name == "p" || id.Name == "r" || id.Name == "s") {
				res = inner.Sel.Name
				return false
			}
		}
		return true
	})
	return res
}

// factory call New<Owner>MessageBy<Key>(p.<Key>) inside node -> (table, keyfield)
func findFactoryCall(n ast.Node) (string, string) {
	tbl, key := "", ""
	ast.Inspect(n, func(x ast.Node) bool {
		ce, ok := x.(*ast.CallExpr)
		if !ok {
			return true
		}
		id, ok := ce.Fun.(*ast.Ident)
		if !ok || !strings.HasPrefix(id.Name, "New") || !strings.Contains(id.Name, "MessageBy") {
			return true
		}
		parts := strings.SplitN(strings.TrimPrefix(id.Name, "New"), "MessageBy", 2)
		tbl = parts[0] + parts[1]
		if se, ok := ce.Args[0].(*ast.SelectorExpr); ok {
			key = se.Sel.Name
		}
		return false
	})
	return tbl, key
}

func (c *ctx) extractEncode(tn string, fd *ast.FuncDecl) []Field {
	var out []Field
	pendingLen := "" // name of bodylen field awaiting its union
	pendingAlg := "" // checksum algorithm seen
	fillTable, fillKey := "", ""
	for _, st := range fd.Body.List {
		switch s := st.(type) {
		case *ast.IfStmt:
			// (a) codec write
			if s.Init != nil {
				if cl := findCodecCall(s.Init); cl != nil {
					if cl.fn == "Get" { // checksum service lookup
						pendingAlg = strings.Trim(exprStr(cl.args[0]), `"`)
						continue
					}
					f, ok := c.fieldFromWrite(tn, cl)
					if !ok { // placeholder: name from the Errorf literal
						name := ""
						ast.Inspect(s.Body, func(x ast.Node) bool {
							if bl, ok := x.(*ast.BasicLit); ok && bl.Kind == token.STRING && !strings.Contains(bl.Value, "%") {
								name = strings.Trim(bl.Value, `"`)
							}
							return true
						})
						c.noteEndian(cl.fn)
						out = append(out, Field{Name: name, Kind: "bodylen", Prefix: "u32"})
						pendingLen = name
						continue
					}
					if pendingAlg != "" && f.Name == "Checksum" {
						f = Field{Name: f.Name, Kind: "checksum", Alg: pendingAlg, Prefix: f.Kind}
						pendingAlg = ""
					}
					out = append(out, f)
					continue
				}
				// (b) if err := p.X.Encode(buf); err != nil
				if fn := findMethodOnField(s.Init, "Encode"); fn != "" {
					gt := c.structs[tn][fn]
					if gt == "codec.BinaryCodec" {
						if fillTable == "" {
							die("%s: union %s without fill", tn, fn)
						}
						out = append(out, Field{Name: fn, Kind: "union", Key: fillKey, Table: fillTable, Fill: true})
						fillTable, fillKey = "", ""
					} else {
						out = append(out, Field{Name: fn, Kind: "struct", Type: strings.TrimPrefix(gt, "*")})
					}
					continue
				}
			}
			// (c) if p.X == nil { fill from factory }   or  if p.Body != nil { p.Body.Encode }
			if be, ok := s.Cond.(*ast.BinaryExpr); ok {
				if be.Op == token.EQL {
					fillTable, fillKey = findFactoryCall(s.Body)
					continue
				}
				if be.Op == token.NEQ {
					fn := findMethodOnField(s.Body, "Encode")
					if fn == "" {
						die("%s: unexpected != nil block", tn)
					}
					out = append(out, Field{Name: fn, Kind: "union", Opt: true})
					continue
				}
			}
			die("%s: unhandled if at %v", tn, s.Pos())
		case *ast.AssignStmt, *ast.ExprStmt, *ast.ReturnStmt:
			// bodyPos := buf.Len(); p.MsgBodyLen = ...; PutUint32(...); return nil
			if es, ok := st.(*ast.ExprStmt); ok {
				if fn := findMethodOnField(es, "Encode"); fn != "" { // hand-written value struct
					out = append(out, Field{Name: fn, Kind: "struct", Type: c.structs[tn][fn], Value: true})
					continue
				}
				if cl := findCodecCall(es); cl != nil { // hand-written: unchecked writer call
					f, _ := c.fieldFromWrite(tn, cl)
					out = append(out, f)
					continue
				}
				// binary.Write(buf, binary.BigEndian, r.X)
				if ce, ok := es.X.(*ast.CallExpr); ok && exprStr(ce.Fun) == "binary.Write" {
					se := ce.Args[2].(*ast.SelectorExpr)
					out = append(out, Field{Name: se.Sel.Name, Kind: scalarKind[c.structs[tn][se.Sel.Name]]})
					continue
				}
			}
		default:
			die("%s: unhandled stmt %T", tn, st)
		}
	}
	_ = pendingLen
	return out
}

func (c *ctx) extractDecode(tn string, fd *ast.FuncDecl) []Field {
	var out []Field
	assignTarget := func(n ast.Node) string { // p.X = val  (first assignment to a p.field)
		name := ""
		ast.Inspect(n, func(x ast.Node) bool {
			if name != "" {
				return false
			}
			if as, ok := x.(*ast.AssignStmt); ok && as.Tok == token.ASSIGN {
				if se, ok := as.Lhs[0].(*ast.SelectorExpr); ok {
					name = se.Sel.Name
					return false
				}
			}
			return true
		})
		return name
	}
	for _, st := range fd.Body.List {
		s, ok := st.(*ast.IfStmt)
		if !ok {
			continue // var err error; return nil
		}
		if s.Init != nil {
			if cl := findCodecCall(s.Init); cl != nil {
				name := assignTarget(s) // else-branch assignment or init assignment (hand-written)
				if as, ok := s.Init.(*ast.AssignStmt); ok && as.Tok == token.ASSIGN {
					if se, ok := as.Lhs[0].(*ast.SelectorExpr); ok {
						name = se.Sel.Name
					}
				}
				out = append(out, c.fieldFromRead(tn, name, cl))
				continue
			}
			if tbl, key := findFactoryCall(s.Init); tbl != "" {
				name := assignTarget(s)
				out = append(out, Field{Name: name, Kind: "union", Key: key, Table: tbl})
				continue
			}
			if fn := findMethodOnField(s.Init, "Decode"); fn != "" {
				gt := c.structs[tn][fn]
				if gt == "codec.BinaryCodec" {
					continue // body decode of the union just created
				}
				if strings.HasPrefix(gt, "*") {
					out = append(out, Field{Name: fn, Kind: "struct", Type: strings.TrimPrefix(gt, "*")})
				} else {
					out = append(out, Field{Name: fn, Kind: "struct", Type: gt, Value: true})
				}
				continue
			}
		}
		if be, ok := s.Cond.(*ast.BinaryExpr); ok && be.Op == token.EQL {
			continue // if p.X == nil { p.X = &T{} }
		}
		die("%s: unhandled decode stmt", tn)
	}
	return out
}

func main() {
	repo, outdir := os.Args[1], os.Args[2]
	for _, m := range mods {
		dir := filepath.Join(repo, m.dir, "messages")
		fset := token.NewFileSet()
		pkgs, err := parser.ParseDir(fset, dir, func(fi os.FileInfo) bool { return !strings.HasSuffix(fi.Name(), "_test.go") }, parser.ParseComments)
		if err != nil {
			die("%v", err)
		}
		c := &ctx{structs: map[string]map[string]string{}, endian: m.endian, le: map[string]int{}}
		var pkgName string
		enc := map[string]*ast.FuncDecl{}
		dec := map[string]*ast.FuncDecl{}
		hand := map[string]bool{}
		var order []string
		tables := map[string]*Table{}
		var tableOrder []string
		for pn, p := range pkgs {
			pkgName = pn
			fnames := []string{}
			for fn := range p.Files {
				fnames = append(fnames, fn)
			}
			sort.Strings(fnames)
			for _, fn := range fnames {
				f := p.Files[fn]
				generated := false
				for _, cg := range f.Comments {
					if strings.Contains(cg.Text(), "Code generated by fin-protoc") {
						generated = true
					}
				}
				for _, d := range f.Decls {
					switch x := d.(type) {
					case *ast.GenDecl:
						for _, sp := range x.Specs {
							ts, ok := sp.(*ast.TypeSpec)
							if !ok {
								continue
							}
							stt, ok := ts.Type.(*ast.StructType)
							if !ok {
								continue
							}
							fm := map[string]string{}
							for _, fl := range stt.Fields.List {
								for _, n := range fl.Names {
									fm[n.Name] = exprStr(fl.Type)
								}
							}
							c.structs[ts.Name.Name] = fm
							order = append(order, ts.Name.Name)
							if !generated {
								hand[ts.Name.Name] = true
							}
						}
					case *ast.FuncDecl:
						if x.Recv != nil {
							tn := strings.TrimPrefix(exprStr(x.Recv.List[0].Type), "*")
							if x.Name.Name == "Encode" {
								enc[tn] = x
							}
							if x.Name.Name == "Decode" {
								dec[tn] = x
							}
						} else if x.Name.Name == "init" {
							for _, st := range x.Body.List {
								es, ok := st.(*ast.ExprStmt)
								if !ok {
									continue
								}
								ce := es.X.(*ast.CallExpr)
								fn := exprStr(ce.Fun) // Registry<Owner><Key>Factory
								tn := strings.TrimSuffix(strings.TrimPrefix(fn, "Registry"), "Factory")
								t := tables[tn]
								if t == nil {
									t = &Table{Name: tn}
									tables[tn] = t
									tableOrder = append(tableOrder, tn)
								}
								var key any
								bl := ce.Args[0].(*ast.BasicLit)
								if bl.Kind == token.STRING {
									key = strings.Trim(bl.Value, `"`)
									t.KeyKind = "str"
								} else {
									n, _ := strconv.Atoi(bl.Value)
									key = n
								}
								fl := ce.Args[1].(*ast.FuncLit)
								ret := fl.Body.List[0].(*ast.ReturnStmt).Results[0]
								ty := exprStr(ret.(*ast.UnaryExpr).X.(*ast.CompositeLit).Type)
								t.Entries = append(t.Entries, Entry{key, ty})
							}
						}
					}
				}
			}
		}
		_ = pkgName
		mod := Module{Module: m.name, Dir: m.dir, GoPkg: "github.com/xinchentechnote/fin-proto-go/" + m.dir + "/messages", Endian: m.endian, Version: m.version}
		var handMod *Module
		for _, tn := range order {
			if enc[tn] == nil {
				die("no Encode for %s", tn)
			}
			c.le = map[string]int{}
			ef := c.extractEncode(tn, enc[tn])
			encStats := c.le
			df := c.extractDecode(tn, dec[tn])
			// normalise: encode-side union of frames (Opt) gets table/key from decode side; bodylen/checksum
			// compare as scalars on the decode side.
			if len(ef) != len(df) {
				die("%s: %d encode fields vs %d decode fields\n%+v\n%+v", tn, len(ef), len(df), ef, df)
			}
			for i := range ef {
				e, d := ef[i], df[i]
				cmp := e
				switch e.Kind {
				case "bodylen":
					cmp = Field{Name: e.Name, Kind: e.Prefix}
				case "checksum":
					cmp = Field{Name: e.Name, Kind: e.Prefix}
				case "union":
					if e.Opt {
						ef[i].Key, ef[i].Table = d.Key, d.Table
						e = ef[i]
					}
					cmp = Field{Name: e.Name, Kind: "union", Key: e.Key, Table: e.Table}
				}
				a, _ := json.Marshal(cmp)
				b, _ := json.Marshal(d)
				if string(a) != string(b) {
					die("%s field %d: encode %s != decode %s", tn, i, a, b)
				}
			}
			// endianness of every call in this type must be the module's (hand-written types: their own)
			want := "BE"
			if m.endian == "little" {
				want = "LE"
			}
			t := Type{Name: tn, Fields: ef}
			if hand[tn] {
				t.Hand = true
				t.Endian = "big"
				if encStats["LE"] != 0 {
					die("%s: hand-written type uses LE", tn)
				}
				if _, isCodec := c.structs[tn]; isCodec && enc[tn].Type.Results == nil {
					t.NoCodec = true
				}
				if handMod == nil {
					handMod = &Module{Module: "handwritten", Dir: m.dir, GoPkg: mod.GoPkg, Endian: "big", Version: "hand-written (sample-bin/messages/risk_control_request.go)"}
				}
				handMod.Types = append(handMod.Types, t)
				continue
			}
			for k, n := range encStats {
				if k != want && n > 0 {
					die("%s: %d %s calls in a %s module", tn, n, k, m.endian)
				}
			}
			mod.Types = append(mod.Types, t)
		}
		for _, tn := range tableOrder {
			t := tables[tn]
			// owner + keykind from the union field that uses it
			for _, ty := range mod.Types {
				for _, f := range ty.Fields {
					if f.Kind == "union" && f.Table == tn {
						t.Owner = ty.Name
						for _, kf := range ty.Fields {
							if kf.Name == f.Key && t.KeyKind == "" {
								t.KeyKind = kf.Kind
							}
						}
					}
				}
			}
			mod.Tables = append(mod.Tables, *t)
		}
		write := func(md *Module) {
			b, _ := json.MarshalIndent(md, "", " ")
			if err := os.WriteFile(filepath.Join(outdir, md.Module+".json"), append(b, '\n'), 0o644); err != nil {
				die("%v", err)
			}
			nf, nk := 0, 0
			for _, t := range md.Types {
				nf += len(t.Fields)
			}
			for _, t := range md.Tables {
				nk += len(t.Entries)
			}
			fmt.Printf("%-12s types=%d fields=%d tables=%d keys=%d\n", md.Module, len(md.Types), nf, len(md.Tables), nk)
		}
		write(&mod)
		if handMod != nil {
			write(handMod)
		}
	}
}
